"""C12 - ill-formed pipelines and inputs are rejected before any user code runs (structural clauses).

  1 wired      for every fault class of the property the validator exists, can raise, and is reached from the right
               entry point on every normal path (must-pass-through over the entry's CFG + call-graph reachability)
  2 no-user    no wrapped user function can be called from construction / validation / prepare_run; in run_map and
               run_map_async everything that can reach a user call is dominated by prepare_run
  3 no-write   on the cleanup=False path, every validator of clause 1 that belongs to a map request dominates the first
               file-system write to the run folder (prepare_run and RunInfo.create), the only deletion is under
               `if cleanup`, and the reader used for the comparison with the previous run has no write effect
"""

from __future__ import annotations

import ast
import re

from ..cfg import ENTRY, EXIT, header_parts
from ..effects import FS_DELETE, FS_WRITE, USER_CALL
from ..flow import Defs, Scope, absence_by_none, bool_eval, conjuncts, exit_avoiding, guard_facts, rejections, unreachable_when
from ..loader import AnalysisError, FuncInfo, dotted, norm, walk_no_nested
from ..report import Ctx
from ..selftest import Mutant

PROP = "C12"
TECHNIQUE = "static analysis: entry-point x validator must-pass table over CFGs + USER_CALL/FS_WRITE/FS_DELETE effect summaries over the resolved call graph + joint branch-condition reachability on the cleanup=False path + uniqueness-of-parameters rejection rule + dominance of the surplus-keyword rejection over the evaluation in Pipeline.run + whole-operand rule for the output/parameter clash test (no narrowing) + axes validator over every MapSpec"
EXPLANATION = (
    "Static analysis over the resolved call graph, per-function CFGs and effect summaries: a table of (entry point, "
    "validator) pairs is checked by must-pass-through queries; USER_CALL effects must be unreachable from construction, "
    "validation and prepare_run; FS_WRITE/FS_DELETE effects in prepare_run / RunInfo.create are ordered after every "
    "request validator on the cleanup=False path."
)
TRUSTED = ["CPython ast parser", "call resolution by annotations", "effect patterns of sa/effects.py (open/mkdir/dump/replace/rmtree/unlink)"]
RUN_FOLDER_MODULES = ("pipefunc.map", "pipefunc._utils")  # who can touch a run folder (DiskCache owns its own directory)
DECLINED = ["that each validator's predicate catches every mutated pipeline / input (value-level)"]

PF = "pipefunc._pipefunc.PipeFunc"
PL = "pipefunc._pipeline._base.Pipeline"
VAL = "pipefunc._pipeline._validation"
PREP = "pipefunc.map._prepare"
RI = "pipefunc.map._run_info"

# (entry point, validator that must be passed on every normal path, fault class)
WIRED = [
    (f"{PL}.add", f"{VAL}.validate_unique_output_names", "duplicate output names"),
    (f"{PL}.add", f"{PL}._validate", "pipeline-level validation on every add"),
    (f"{PL}.output_to_func", f"{VAL}.validate_unique_output_names", "duplicate output names created by a rename (the name table is rebuilt after every invalidation and consulted by every run/map)"),
    (f"{PL}._validate", f"{VAL}.validate_consistent_defaults", "inconsistent defaults"),
    (f"{PL}._validate", f"{VAL}.validate_scopes", "scope used as parameter name"),
    (f"{PL}.graph", f"{VAL}.validate_consistent_defaults", "defaults made inconsistent through a member function (graph is rebuilt after every invalidation)"),
    (f"{PL}._validate", f"{PL}._validate_mapspec", "MapSpecs vs output names / axes"),
    (f"{PL}._validate_mapspec", "pipefunc.map._mapspec.validate_consistent_axes", "MapSpecs that disagree about an array's axes"),
    (f"{PL}._validate_mapspec", f"{PL}._autogen_mapspec_axes", "cyclic dependencies (topological_generations via networkx)"),
    (f"{PF}.__init__", f"{PF}._validate", "function-level validation at construction"),
    (f"{PF}.update_defaults", f"{PF}._validate", "defaults/bound overlap after update"),
    (f"{PF}.update_bound", f"{PF}._validate", "defaults/bound overlap after update"),
    (f"{PF}.update_renames", f"{PF}._validate", "output named like a parameter after rename"),
    (f"{PF}._validate", f"{PF}._validate_names", "output named like own parameter, defaults and bound overlap, identifiers"),
    (f"{PF}._validate", f"{PF}._validate_mapspec", "MapSpec vs signature"),
    (f"{PREP}.prepare_run", f"{PREP}._validate_complete_inputs", "missing or surplus inputs"),
    (f"{PREP}.prepare_run", "pipefunc.map._mapspec.validate_consistent_axes", "axes disagreement at map time"),
    (f"{PREP}.prepare_run", f"{PREP}._validate_fixed_indices", "fixed_indices validation"),
    (f"{PREP}.prepare_run", f"{RI}.RunInfo.create", "run-info creation (shapes, storage)"),
    (f"{RI}.RunInfo.create", f"{RI}._check_inputs", "list inputs for >1-D arrays"),
    (f"{RI}.RunInfo.create", "pipefunc.map._shapes.map_shapes", "rank and zipped-dimension mismatch"),
    (f"{RI}.RunInfo.create", f"{RI}._maybe_run_folder", "unknown storage names"),
    (f"{RI}._maybe_run_folder", "pipefunc.map._storage_array._base.get_storage_class", "unknown storage names are resolved whether or not a run folder is given"),
]
# validators that must contain a reachable raise themselves (or through the named callee)
RAISING = [
    f"{VAL}.validate_unique_output_names", f"{VAL}.validate_consistent_defaults", f"{VAL}.validate_scopes",
    "pipefunc.map._mapspec.validate_consistent_axes", f"{PF}._validate_names", f"{PF}._validate_mapspec",
    f"{PREP}._validate_complete_inputs", f"{PREP}._validate_fixed_indices", f"{RI}._check_inputs",
    "pipefunc.map._mapspec._validate_shapes", "pipefunc.map._mapspec._get_common_dim",
    "pipefunc.map._storage_array._base.get_storage_class", f"{PL}._validate_mapspec",
]
REACH = [  # (from, to, why)
    ("pipefunc.map._shapes.map_shapes", "pipefunc.map._mapspec._validate_shapes", "rank check on the shape path"),
    ("pipefunc.map._shapes.map_shapes", "pipefunc.map._mapspec._get_common_dim", "zipped dimension check on the shape path"),
    (f"{RI}._maybe_run_folder", "pipefunc.map._storage_array._base.get_storage_class", "storage names resolved before anything is written"),
    (f"{PL}._autogen_mapspec_axes", f"{PL}.topological_generations", "cycle detection"),
    (f"{RI}._compare_to_previous_run_info", f"{RI}.RunInfo.load", "comparison with the previous run"),
]


def _unconditional(node: ast.AST, env: dict[str, bool] | None = None):
    """Sub-expressions that are evaluated whenever `node` is (no short-circuit / conditional operands); `env` holds known truth
    values of plain names (a conditional expression on such a name evaluates the selected arm)."""
    yield node
    if isinstance(node, ast.BoolOp):
        yield from _unconditional(node.values[0], env)
        return
    if isinstance(node, ast.IfExp):
        yield from _unconditional(node.test, env)
        v = bool_eval(node.test, env) if env else None
        if v is not None:
            yield from _unconditional(node.body if v else node.orelse, env)
        return
    if isinstance(node, (ast.ListComp, ast.SetComp, ast.GeneratorExp, ast.DictComp)):
        yield from _unconditional(node.generators[0].iter, env)
        # an eager comprehension without a filter evaluates its element for EVERY item (a generator expression may be abandoned)
        if not isinstance(node, ast.GeneratorExp) and len(node.generators) == 1 and not node.generators[0].ifs:
            for part in ([node.key, node.value] if isinstance(node, ast.DictComp) else [node.elt]):
                yield from _unconditional(part, env)
        return
    if isinstance(node, ast.Lambda):
        return
    for c in ast.iter_child_nodes(node):
        yield from _unconditional(c, env)


def _call_nodes(ctx: Ctx, fn: FuncInfo, target: str) -> set[int]:
    """CFG nodes of `fn` that directly call a function from which `target` is reachable (or `target` itself)."""
    cfg = ctx.cfg(fn)
    cg = ctx.cg
    out = set()
    for n in cfg.nodes():
        st = cfg.stmt[n]
        for part in header_parts(st):
            for x in _unconditional(part):
                callees: list[FuncInfo] = []
                if isinstance(x, ast.Call):
                    callees = cg.resolve_callable(fn, x.func)
                elif isinstance(x, ast.Attribute) and isinstance(x.ctx, ast.Load):
                    base = ctx.typer.expr(fn, x.value)
                    for c in base.classes():
                        m = ctx.prog.find_method(c, x.attr)
                        if m is not None and m.is_property:
                            callees.append(m)
                for c in callees:
                    if c.qualname == target or target in cg.reachable(c.qualname):
                        out.add(n)
    # a loop that makes the call for every item counts as a whole: its zero-iteration path has nothing to validate
    for lp in cfg.nodes(lambda s_: isinstance(s_, (ast.For, ast.AsyncFor))):
        body = cfg.stmt[lp].body
        for b in body:  # the call is a statement of the loop body itself and nothing before it can leave the iteration
            if isinstance(b, (ast.FunctionDef, ast.ClassDef)):
                continue
            if cfg.node_of.get(id(b)) in out:
                out.add(lp)
                break
            if any(isinstance(x, (ast.Continue, ast.Break, ast.Return, ast.Raise)) for x in ast.walk(b)):
                break
    return out


def rule_wired(ctx: Ctx) -> None:  # noqa: C901, PLR0912, PLR0915
    P, cg = ctx.prog, ctx.cg
    for entry_q, val_q, fault in WIRED:
        entry = P.func(entry_q)
        P.func(val_q)
        cfg = ctx.cfg(entry)
        nodes = _call_nodes(ctx, entry, val_q)
        ok = bool(nodes) and cfg.must_pass(ENTRY, EXIT, nodes, normal_only=True)
        wp = None if ok else cfg.witness_path(ENTRY, EXIT, nodes)
        ctx.add("1-wired", entry, entry.node, ok,
                f"{fault}: every normal path passes {val_q.rsplit('.', 1)[-1]}" if ok else f"{fault}: a path through {entry.name} does not reach {val_q.rsplit('.', 1)[-1]}",
                key=f"{entry.name} -> {val_q.rsplit('.', 1)[-1]}", path=cfg.describe(wp, entry.module.relpath) if wp else None)
    for q in RAISING:
        f = P.func(q)
        from ..flow import reach_rejections

        raises = reach_rejections(ctx, f, depth=4)  # live raise sites of the function and of what it calls in its module
        ok = bool(raises)
        ctx.add("1-wired", f, raises[0]["node"] if raises else f.node, ok, f"{f.name} can reject ({len(raises)} raise site(s))" if ok else f"{f.name} can no longer raise", key=f"raises {f.name}")
    for a, b, why in REACH:
        ok = b in cg.reachable(a)
        ctx.add("1-wired", a, P.func(a).loc, ok, f"{why}: {a.rsplit('.', 1)[-1]} reaches {b.rsplit('.', 1)[-1]}" if ok else f"{why}: {a.rsplit('.', 1)[-1]} no longer reaches {b.rsplit('.', 1)[-1]}", key=f"reach {a.rsplit('.', 1)[-1]}->{b.rsplit('.', 1)[-1]}")
    rs = P.func(f"{RI}._requires_serialization")
    lazy_any = [c for c in ast.walk(rs.node) if isinstance(c, ast.Call) and dotted(c.func) in ("any", "all", "next") and c.args and isinstance(c.args[0], ast.GeneratorExp)
                and any(isinstance(x, ast.Call) and dotted(x.func) == "get_storage_class" for x in ast.walk(c.args[0]))]
    lookups = [c for c in ast.walk(rs.node) if isinstance(c, ast.Call) and dotted(c.func) == "get_storage_class"]
    # ... or inside a loop that is left at the first hit
    early = [lp for lp in ast.walk(rs.node) if isinstance(lp, (ast.For, ast.While)) and any(isinstance(x, ast.Call) and dotted(x.func) == "get_storage_class" for x in ast.walk(lp))
             and any(isinstance(x, (ast.Return, ast.Break)) for b_ in lp.body for x in ast.walk(b_))]
    bad = lazy_any or early
    ctx.tri("1-wired", rs, bad[0] if bad else rs.node, bool(lookups) and not bad, bool(bad), "every storage name of a per-output dict is looked up (no short-circuit)",
            "storage names are looked up inside a short-circuiting any()/all() / a loop left at the first hit: names after the first hit are not validated before the folder is written",
            "no lookup of the storage class found in _requires_serialization", key="all-storage-names")
    prep = P.func(f"{PREP}.prepare_run")
    # an executor together with parallel=False is rejected before anything is written
    cfg_p = ctx.cfg(prep)
    helpers = {f_.name: f_ for f_ in Scope(ctx, prep).funcs[1:]}

    def rejects_exec(st: ast.AST) -> bool:
        if isinstance(st, ast.Raise):
            n_ = cfg_p.node(st)
            facts = [t for t, _p in guard_facts(cfg_p, Defs(prep), n_)]
            return any(t == "parallel" or t.startswith("parallel ") for t in facts) and any("executor" in t for t in facts)
        for part in header_parts(st):
            for c in ast.walk(part):
                if isinstance(c, ast.Call):
                    last = dotted(c.func).rsplit(".", 1)[-1] if dotted(c.func) else getattr(c.func, "attr", "")
                    h = helpers.get(last)
                    if h is not None:
                        for r in rejections(ctx.cfg(h), h.node, Defs(h)):
                            txt = " ".join(r["conds"])
                            if "parallel" in txt and "executor" in txt:
                                return True
        return False

    rej_nodes = set(cfg_p.nodes(rejects_exec))
    writes = [n_ for n_ in cfg_p.nodes() if any(isinstance(c, ast.Call) and dotted(c.func).endswith("RunInfo.create") for part in header_parts(cfg_p.stmt[n_]) for c in ast.walk(part))]
    if writes:
        # the test that leads to the rejection must dominate the first write
        par_p = {id(c_): p_ for p_ in ast.walk(prep.node) for c_ in ast.iter_child_nodes(p_)}

        def deciding(r_: int) -> int:
            x = cfg_p.stmt[r_]
            while id(x) in par_p:
                x = par_p[id(x)]
                if isinstance(x, ast.If):
                    return cfg_p.node(x)
            return r_

        tests = {deciding(r_) if isinstance(cfg_p.stmt[r_], ast.Raise) else r_ for r_ in rej_nodes}
        before = bool(tests) and all(any(cfg_p.dominates(t_, w_) for t_ in tests) for w_ in writes)
        late = bool(rej_nodes) and not before
        ctx.tri("1-wired", prep, cfg_p.stmt[sorted(rej_nodes)[0]] if rej_nodes else prep.node, before, late or not rej_nodes, "an executor with parallel=False is rejected before the run folder is touched",
                "the executor/parallel=False rejection happens only after RunInfo.create has written to the run folder (or not at all): a rejected call alters an existing run opened with cleanup=False", key="executor-parallel")
    # validators decide presence by membership: None is a legal default / value
    n_abs = 0
    for vf in P.functions_in("pipefunc._pipeline._validation"):
        sites = absence_by_none(vf.node)
        n_abs += 1
        ctx.add("1-wired", vf, sites[0][0] if sites else vf.node, not sites, "presence is decided by membership, not by comparing a looked-up value with None" if not sites else
                f"`{sites[0][1]}.get(...)` compared with None decides whether an entry exists: a value that IS None (e.g. a default of None) is treated as absent, so the check it guards is skipped for it", key="none-is-a-value")
    # cycle detection on the run/__call__ path: something that certainly sorts topologically must dominate _run
    pl_cls = P.cls(PL)
    _call_of: dict[int, ast.Call] = {}
    for m in pl_cls.methods.values():
        for c in ast.walk(m.node):
            if isinstance(c, ast.Call):
                _call_of[id(c.func)] = c
    BASE = f"{PL}.topological_generations"

    def _default_env(m: FuncInfo) -> dict[str, bool]:
        a_ = m.node.args
        env: dict[str, bool] = {}
        pos = a_.args[len(a_.args) - len(a_.defaults):] if a_.defaults else []
        for p_, d_ in list(zip(pos, a_.defaults)) + [(k_, d) for k_, d in zip(a_.kwonlyargs, a_.kw_defaults) if d is not None]:
            if isinstance(d_, ast.Constant) and isinstance(d_.value, bool):
                env[p_.arg] = d_.value
        return env

    def _callee_env(x: ast.Attribute, callee: FuncInfo) -> dict[str, bool]:
        """Truth values of the callee's boolean parameters at this reference: its defaults, overridden by constant arguments;
        a parameter that receives anything else, or that the callee rebinds, is unknown."""
        env = _default_env(callee)
        call = _call_of.get(id(x))
        if call is not None:
            names = [a.arg for a in callee.node.args.args][1:]
            given = dict(zip(names, call.args))
            given.update({k.arg: k.value for k in call.keywords if k.arg})
            if any(isinstance(a, ast.Starred) for a in call.args) or any(k.arg is None for k in call.keywords):
                return {}
            for k_, v_ in given.items():
                if isinstance(v_, ast.Constant) and isinstance(v_.value, bool):
                    env[k_] = v_.value
                else:
                    env.pop(k_, None)
        for n_ in ast.walk(callee.node):
            if isinstance(n_, ast.Name) and isinstance(n_.ctx, ast.Store):
                env.pop(n_.id, None)
        return env

    def _possible(node: ast.AST, env: dict[str, bool]):
        """Every sub-expression that MAY be evaluated with `node` (a conditional expression decided by `env` keeps one arm)."""
        yield node
        if isinstance(node, ast.IfExp) and env:
            v = bool_eval(node.test, env)
            if v is not None:
                yield from _possible(node.test, env)
                yield from _possible(node.body if v else node.orelse, env)
                return
        for c in ast.iter_child_nodes(node):
            yield from _possible(c, env)

    def _self_refs(part: ast.AST, env: dict[str, bool], certain: bool):
        for x in (_unconditional(part, env) if certain else _possible(part, env)):
            if isinstance(x, ast.Attribute) and norm(x.value) == "self" and not isinstance(x.ctx, ast.Store) and x.attr in pl_cls.methods and x.attr != "_run":
                yield x

    def _admissible(cfg_m, defs_m: Defs, env: dict[str, bool]) -> set[int]:
        """CFG nodes on some normal path from the entry that takes no branch ruled out by `env`."""
        ifs = {n: defs_m.resolve(cfg_m.stmt[n].test) for n in cfg_m.nodes(lambda s_: isinstance(s_, (ast.If, ast.While)))}
        seen, todo = {ENTRY}, [ENTRY]
        while todo:
            x = todo.pop()
            for y in cfg_m.g.successors(x):
                e = cfg_m.g.edges[x, y]
                if y in seen or e.get("exceptional"):
                    continue
                br = e.get("branch")
                if br is not None and x in ifs:
                    v = bool_eval(ifs[x], env)
                    if v is not None and v != br:
                        continue
                seen.add(y)
                todo.append(y)
        return seen - {ENTRY, EXIT}

    _memo: dict[tuple, bool] = {}

    def _sorting_nodes(m: FuncInfo, env: dict[str, bool], certain: bool, stack: frozenset) -> set[int]:
        cfg_m = ctx.cfg(m)
        nodes = _admissible(cfg_m, Defs(m), env)
        out = set()
        for n in nodes:
            for part in header_parts(cfg_m.stmt[n]):
                if part is None:
                    continue
                for x in _self_refs(part, env, certain):
                    callee = pl_cls.methods.get(x.attr)
                    if callee is not None and _sorts(callee, _callee_env(x, callee), certain, stack):
                        out.add(n)
        return out

    def _sorts(m: FuncInfo, env: dict[str, bool], certain: bool, stack: frozenset = frozenset()) -> bool:
        """certain: every admissible normal path through `m` evaluates a topological sort; else: some admissible path may."""
        if m.qualname == BASE:
            return True
        key = (m.qualname, tuple(sorted(env.items())), certain)
        if key in _memo:
            return _memo[key]
        if m.qualname in stack:
            return False
        s_nodes = _sorting_nodes(m, env, certain, stack | {m.qualname})
        res = bool(s_nodes) and (not certain or exit_avoiding(ctx.cfg(m), Defs(m), s_nodes, env) is None)
        _memo[key] = res
        return res

    run_m = P.func(f"{PL}.run")
    cfg_r = ctx.cfg(run_m)
    run_calls = cfg_r.nodes(lambda s: any(isinstance(c, ast.Call) and norm(c.func) == "self._run" for part in header_parts(s) for c in ast.walk(part)))
    sort_nodes = _sorting_nodes(run_m, {}, True, frozenset())
    ok = bool(run_calls) and bool(sort_nodes) and all(cfg_r.must_pass(ENTRY, r, sort_nodes, normal_only=True) for r in run_calls)
    # a violation needs the positive fact that nothing evaluated before the run can sort at all
    before_run = set()
    for r in run_calls:
        before_run |= {n for n in cfg_r.nodes() if r in cfg_r.reachable_from(n, normal_only=True)} | {r}
    nothing = bool(run_calls) and not (_sorting_nodes(run_m, {}, False, frozenset()) & before_run)
    ctx.tri("1-wired", run_m, run_m.node, ok, nothing, "run() topologically sorts the (possibly mutated) graph before evaluating anything: cycles raise first",
            "nothing on the way from run() to _run() sorts the graph topologically: a cycle introduced through a member function is only noticed after user functions ran (RecursionError)", key="run-detects-cycles")
    tg = P.func(f"{PL}.topological_generations")
    # networkx raises on a cycle while the generator is consumed: it must be consumed completely inside the property
    par_t = {id(c): p_ for p_ in ast.walk(tg.node) for c in ast.iter_child_nodes(p_)}
    gens = [c for c in ast.walk(tg.node) if isinstance(c, ast.Call) and dotted(c.func).endswith("topological_generations") and not norm(c.func).startswith("self.")]
    verdicts = []
    for c in gens:
        up = par_t.get(id(c))
        while isinstance(up, ast.Call) and dotted(up.func) in ("enumerate", "iter"):
            c, up = up, par_t.get(id(up))
        if isinstance(up, ast.Call) and dotted(up.func) in ("list", "tuple", "sorted", "len") and c in up.args:
            verdicts.append(True)
        elif isinstance(up, (ast.For, ast.AsyncFor)) and up.iter is c:
            verdicts.append(not any(isinstance(x, (ast.Break, ast.Return)) for b_ in up.body for x in ast.walk(b_)))
        elif isinstance(up, (ast.Return, ast.GeneratorExp, ast.comprehension)) and not isinstance(par_t.get(id(up)), (ast.ListComp, ast.SetComp, ast.DictComp)):
            verdicts.append(False)
        else:
            verdicts.append(None)
    ctx.tri("1-wired", tg, gens[0] if gens else tg.node, bool(verdicts) and all(v is True for v in verdicts), any(v is False for v in verdicts),
            "generations are consumed completely inside the property (networkx raises on a cycle)", "topological_generations hands the networkx generator on without consuming it: cycles surface later, after user functions may have run",
            "consumption of nx.topological_generations not recognised", key="cycle-eager")



def rule_no_user(ctx: Ctx) -> None:  # noqa: C901
    P, cg, eff = ctx.prog, ctx.cg, ctx.effects
    for q in (f"{PL}.__init__", f"{PL}.add", f"{PL}._validate", f"{PF}.__init__", f"{PF}._validate", f"{PREP}.prepare_run", f"{RI}.RunInfo.create", f"{RI}.RunInfo.init_store",
              f"{PL}.update_defaults", f"{PL}.update_renames", f"{PL}.subpipeline", "pipefunc.map._shapes.map_shapes"):
        P.func(q)
        w = eff.witness(q, USER_CALL)
        ok = w is None
        ctx.add("2-no-user", q, P.func(q).loc, ok, "cannot reach a wrapped user function" if ok else "a user function can be invoked during construction/validation",
                key=f"no-user {q.rsplit('.', 2)[-2]}.{q.rsplit('.', 1)[-1]}", path=eff.describe(w, USER_CALL) if w else None)
    for q in ("pipefunc.map._run.run_map", "pipefunc.map._run.run_map_async"):
        f = P.func(q)
        cfg = ctx.cfg(f)
        pr = _call_nodes(ctx, f, f"{PREP}.prepare_run")
        pr_direct = {n for n in pr if any(isinstance(c, ast.Call) and dotted(c.func) == "prepare_run" for part in header_parts(cfg.stmt[n]) for c in ast.walk(part))}
        if not pr_direct:
            raise AnalysisError(f"{q}: call of prepare_run not found")
        users = set()
        for n in cfg.nodes():
            st = cfg.stmt[n]
            if isinstance(st, (ast.FunctionDef, ast.AsyncFunctionDef)):
                sub = f.nested.get(st.name)
                if sub is not None and eff.has(sub.qualname, USER_CALL):
                    users.add(n)
                continue
            for part in header_parts(st):
                for c in ast.walk(part):
                    if isinstance(c, ast.Call):
                        for cal in cg.resolve_callable(f, c.func):
                            if eff.has(cal.qualname, USER_CALL):
                                users.add(n)
        users -= pr_direct
        p0 = min(pr_direct)
        ok = bool(users) and all(cfg.dominates(p0, u) for u in users)
        ctx.add("2-no-user", f, cfg.stmt[p0], ok, f"prepare_run dominates all {len(users)} statement(s) that can run user functions" if ok else "something that can run a user function is reachable before prepare_run returned", key="prepare-first")



def rule_no_write(ctx: Ctx) -> None:  # noqa: C901, PLR0915
    P, cg, eff = ctx.prog, ctx.cg, ctx.effects
    prep = P.func(f"{PREP}.prepare_run")
    cmp_ = P.func(f"{RI}._compare_to_previous_run_info")
    for effect in (FS_WRITE, FS_DELETE):
        w = eff.witness(cmp_.qualname, effect)
        ctx.add("3-no-write", cmp_, cmp_.node, w is None, f"the previous-run comparison has no {effect} effect" if w is None else f"the read-only comparison with the previous run has a {effect} effect",
                key=f"reader-{effect}", path=eff.describe(w, effect) if w else None)
    ld = P.func(f"{RI}.RunInfo.load")
    for effect in (FS_WRITE, FS_DELETE):
        w = eff.witness(ld.qualname, effect)
        ctx.add("3-no-write", ld, ld.node, w is None, f"RunInfo.load has no {effect} effect" if w is None else f"RunInfo.load (used by load_outputs and by the cleanup=False gate) has a {effect} effect",
                key=f"load-{effect}", path=eff.describe(w, effect) if w else None)
    create = P.func(f"{RI}.RunInfo.create")
    cfg = ctx.cfg(create)
    d_create = Defs(create)
    cl_body_nodes = {n for n in cfg.nodes() if unreachable_when(cfg, d_create, n, {"cleanup": False})}  # only run when cleanup is true

    def effect_nodes(fn: FuncInfo, cfg_, effect: str, exclude: set[int]) -> list[int]:
        out = []
        for n in cfg_.nodes():
            if n in exclude:
                continue
            for part in header_parts(cfg_.stmt[n]):
                for c in ast.walk(part):
                    if isinstance(c, ast.Call):
                        name = dotted(c.func)
                        if name.endswith("mkdtemp"):
                            continue
                        for cal in cg.resolve_callable(fn, c.func):
                            if cal.qualname.endswith("._maybe_run_folder"):
                                continue  # only mkdtemp for run_folder=None
                            if eff.has(cal.qualname, effect, modules=RUN_FOLDER_MODULES):
                                out.append(n)
                        if any(e == effect and x is c for e, x in eff.direct.get(fn.qualname, [])):
                            out.append(n)
        return sorted(set(out))

    dels = effect_nodes(create, cfg, FS_DELETE, set())
    ok = bool(dels) and all(d in cl_body_nodes for d in dels)
    ctx.add("3-no-write", create, cfg.stmt[dels[0]] if dels else create.node, ok, "the only deletion in RunInfo.create is under `if cleanup`" if ok else "RunInfo.create deletes from the run folder outside the `if cleanup` arm", key="delete-under-cleanup")
    clean = P.func(f"{RI}._cleanup_run_folder")
    ok = eff.has(clean.qualname, FS_DELETE) and [s.caller.qualname for s in cg.call_sites_of(clean.qualname)] == [create.qualname]
    ctx.add("3-no-write", clean, clean.node, ok, "_cleanup_run_folder is only called from RunInfo.create" if ok else "the run folder can be wiped from another call site", key="cleanup-callers")
    writes = effect_nodes(create, cfg, FS_WRITE, cl_body_nodes)
    if not writes:
        raise AnalysisError("RunInfo.create: no FS_WRITE site found (the run info is written somewhere else?)")
    w0 = writes[0]
    for val in (f"{RI}._check_inputs", "pipefunc.map._shapes.map_shapes", f"{RI}._compare_to_previous_run_info", f"{RI}._maybe_run_folder"):
        vn = {n for n in _call_nodes(ctx, create, val) if any(isinstance(c, ast.Call) and dotted(c.func).rsplit(".", 1)[-1] == val.rsplit(".", 1)[-1] for part in header_parts(cfg.stmt[n]) for c in ast.walk(part))}
        if val.endswith("_compare_to_previous_run_info"):
            # on the cleanup=False path every way to the first write passes the comparison, and it never comes after the write
            env = {"cleanup": False}
            if "run_folder" in create.param_names():
                env["run_folder is None"] = False  # without a run folder nothing is written
            for t_, truth in cfg.controls(w0):  # the conditions under which the write happens at all (a run folder exists)
                for text, pol in conjuncts(d_create.resolve(t_), truth):
                    env.setdefault(text, pol)
            infeasible = {n for n in cfg.g.nodes if n not in (ENTRY, EXIT, w0) and unreachable_when(cfg, d_create, n, env)}
            ok = bool(vn) and not any(v in cfg.reachable_from(w0) for v in vn) and w0 not in cfg.reachable_from(ENTRY, without=vn | infeasible)
        else:
            ok = bool(vn) and all(cfg.dominates(v, w0) for v in vn)
            if not vn and val not in P.functions:
                # the helper no longer exists (inlined into create): its rejections are then statements of create itself - they must
                # come before the write; which of create's rejections were the helper's is not decided
                own = [n_ for n_ in cfg.nodes(lambda s_: isinstance(s_, ast.If) and any(isinstance(x, ast.Raise) for x in ast.walk(s_))) if cfg.dominates(n_, w0) or True]
                late = [n_ for n_ in own if n_ in cfg.reachable_from(w0) and not cfg.dominates(n_, w0)]
                ctx.add("3-no-write", create, cfg.stmt[w0], None if not late else False, f"UNDECIDED: {val.rsplit('.', 1)[-1]} does not exist any more (inlined?); {len(own)} rejection(s) of create itself, none after the first write" if not late else
                        f"a rejection of RunInfo.create (`{norm(cfg.stmt[late[0]].test)[:50]}`) only runs after the run folder was written", key=f"before-write {val.rsplit('.', 1)[-1]}")
                continue
        ctx.add("3-no-write", create, cfg.stmt[w0], ok, f"{val.rsplit('.', 1)[-1]} runs before the first write to the run folder" if ok else f"the run folder is written before {val.rsplit('.', 1)[-1]} has accepted the request", key=f"before-write {val.rsplit('.', 1)[-1]}")
    cfg_p = ctx.cfg(prep)
    writes_p = effect_nodes(prep, cfg_p, FS_WRITE, set())
    if not writes_p:
        raise AnalysisError("prepare_run: no FS_WRITE site found")
    wp0 = writes_p[0]
    for val in (f"{PREP}._validate_complete_inputs", "pipefunc.map._mapspec.validate_consistent_axes", f"{PREP}._validate_fixed_indices", f"{PL}.subpipeline",
                "pipefunc.map._adaptive_scheduler_slurm_executor.validate_slurm_executor"):
        short = val.rsplit(".", 1)[-1]
        helpers = {f_.name: f_ for f_ in Scope(ctx, prep).funcs[1:]}

        def calls_short(st: ast.AST, short: str = short) -> bool:
            for part in header_parts(st):
                for c in ast.walk(part):
                    if isinstance(c, ast.Call):
                        last = dotted(c.func).rsplit(".", 1)[-1] if dotted(c.func) else getattr(c.func, "attr", "")
                        if last == short or (last in helpers and any(isinstance(x, ast.Call) and (dotted(x.func).rsplit(".", 1)[-1] if dotted(x.func) else getattr(x.func, "attr", "")) == short for x in ast.walk(helpers[last].node))):
                            return True
            return False

        vn = set(cfg_p.nodes(calls_short))
        ok = bool(vn) and all(cfg_p.dominates(v, wp0) or (isinstance(cfg_p.stmt[v], ast.Assign) and short == "subpipeline" and not (wp0 in cfg_p.reachable_from(ENTRY, without={v}) and v in cfg_p.reachable_from(wp0))) for v in vn)
        if short == "subpipeline":
            ok = bool(vn) and not any(v in cfg_p.reachable_from(wp0) for v in vn)
        ctx.add("3-no-write", prep, cfg_p.stmt[wp0], ok, f"{short} precedes the first write in prepare_run" if ok else f"prepare_run writes to the run folder before {short}", key=f"prepare-before-write {short}")
    ok = any(isinstance(c, ast.Call) and dotted(c.func).endswith("RunInfo.create") for part in header_parts(cfg_p.stmt[wp0]) for c in ast.walk(part))
    ctx.add("3-no-write", prep, cfg_p.stmt[wp0], ok, "the first writing step of prepare_run is RunInfo.create" if ok else f"the first writing step of prepare_run is `{norm(cfg_p.stmt[wp0])[:60]}`, not RunInfo.create", key="first-write-is-create")
    # forwarding of cleanup
    calls = [c for c in ast.walk(prep.node) if isinstance(c, ast.Call) and dotted(c.func).endswith("RunInfo.create")]
    ok = bool(calls) and any(k.arg == "cleanup" and norm(k.value) == "cleanup" for k in calls[0].keywords) and any(k.arg == "storage" and norm(k.value) == "storage" for k in calls[0].keywords)
    ctx.add("3-no-write", prep, calls[0] if calls else prep.node, ok, "cleanup and storage are forwarded unchanged" if ok else "prepare_run does not forward cleanup/storage unchanged to RunInfo.create", key="forward-cleanup")


def rule_unique_parameters(ctx: Ctx) -> None:
    """A rename must not map a parameter onto the name of another parameter of the same function: the function would have two
    parameters of one name (`parameters == ('b', 'b')`), be accepted into a pipeline, and only fail inside the user call."""
    from ..flow import reach_rejections

    vn = ctx.prog.func(f"{PF}._validate_names")
    rj = reach_rejections(ctx, vn, depth=3)
    conds = [c for r in rj for c in r["conds"]]
    uniq = [c for c in conds if "parameters" in c and re.search(r"len\(set\(|Counter\(|\.count\(|duplic", c)]
    about = [c for c in conds if "parameters" in c and re.search(r"len\(|Counter|count\(|duplic", c)]
    ctx.tri("1-wired", vn, vn.node, bool(uniq), bool(rj) and not about, "duplicate parameter names (a rename onto an existing parameter) are rejected",
            "no rejection of _validate_names compares the parameter names with their set: `renames={'a': 'b'}` on f(a, b) yields parameters ('b', 'b'), the function is accepted and fails only inside the user call",
            "uniqueness test of the parameter names not recognised", key="unique-parameters")


def rule_clash_whole(ctx: Ctx) -> None:
    """The output-vs-own-parameter clash is decided over ALL parameters of the function: an operand of the deciding test that
    is a restriction of the parameter names (a set difference, a filter) exempts some parameters, and a function whose output
    is named like an exempted parameter is accepted and run."""
    from ..flow import narrowings, reach_rejections

    vn = ctx.prog.func(f"{PF}._validate_names")
    defs = Defs(vn)
    found, narrowed = [], []
    for n in walk_no_nested(vn.node):
        if not isinstance(n, ast.If) or not any(isinstance(x, ast.Raise) for b in n.body for x in ast.walk(b)):
            continue
        t = defs.resolve(n.test)
        txt = norm(t)
        if "output_name" not in txt or "parameters" not in txt:
            continue
        while isinstance(t, ast.NamedExpr) or (isinstance(t, ast.UnaryOp) and isinstance(t.op, ast.Not)):
            t = t.value if isinstance(t, ast.NamedExpr) else t.operand
        if isinstance(t, ast.BinOp) and isinstance(t.op, ast.BitAnd):
            ops = [t.left, t.right]
        elif isinstance(t, ast.Call) and isinstance(t.func, ast.Attribute) and t.func.attr in ("intersection", "isdisjoint") and len(t.args) == 1:
            ops = [t.func.value, t.args[0]]
        else:
            continue  # not an overlap test of two collections
        sides = ["parameters" in norm(o) for o in ops], ["output_name" in norm(o) for o in ops]
        if not ((sides[0][0] and sides[1][1]) or (sides[0][1] and sides[1][0])):
            continue  # the two operands are not (parameter names, output names)
        found.append(n)
        for o in ops:
            narrowed += [(n, why) for _x, why in narrowings(o, intersections=True)]
    rj = reach_rejections(ctx, vn, depth=3)
    about = [c for r in rj for c in r["conds"] if "output_name" in c and "parameters" in c]
    ctx.tri("1-wired", vn, (narrowed[0][0] if narrowed else found[0] if found else vn.node), bool(found) and not narrowed, bool(narrowed) or (bool(rj) and not about and not found),
            "the output/parameter name clash is decided over all parameters of the function",
            (f"the clash test exempts some parameters ({narrowed[0][1]}): a function whose output is named like an exempted parameter is accepted and executed" if narrowed
             else "no rejection of _validate_names relates output_name to the parameters: a function whose output is named like its own parameter is accepted"),
            "output/parameter clash test not recognised", key="clash-whole")


def rule_axes_validator_whole(ctx: Ctx) -> None:
    """validate_consistent_axes compares the axes of EVERY MapSpec it is given: a loop over its argument that skips some of them
    (auto-generated ones, say) lets a later-added consumer disagree with exactly those about an array's axes."""
    from ..flow import iterations

    vca = ctx.prog.func("pipefunc.map._mapspec.validate_consistent_axes")
    p0 = vca.param_names()[0]
    its = [it for it in iterations(vca.node) if norm(it["iter"]) == p0 or norm(it["iter"]).startswith(p0 + ".")]
    filt = [it for it in its if it["filters"]]
    ctx.tri("1-wired", vca, (filt or its or [{"node": vca.node}])[0]["node"], bool(its) and not filt, bool(filt), "validate_consistent_axes looks at every MapSpec it is given",
            f"validate_consistent_axes skips MapSpecs (`{filt[0]['filters'][0][0][:50] if filt else ''}`): arrays whose axes only those MapSpecs pin down are never compared - an inconsistent consumer is accepted at construction and at the start of map",
            "iteration over the MapSpecs not recognised", key="axes-validator-whole")


def rule_run_upfront(ctx: Ctx) -> None:
    """pipeline(...) / Pipeline.run: surplus and missing keyword arguments are to be rejected before a user function runs.
    Checked as: the test that guards the UnusedParametersError precedes (dominates) the evaluation, and the evaluation cannot be
    entered with a missing argument.  (map() validates up front through prepare_run: rule 1.)"""
    from ..flow import reach_rejections

    P = ctx.prog
    rn = P.func(f"{PL}.run")
    cfg = ctx.cfg(rn)
    execs = cfg.nodes(lambda s_: not isinstance(s_, (ast.If, ast.For, ast.While)) and any(isinstance(c, ast.Call) and norm(c.func).endswith("._run") for c in ast.walk(s_)))
    rj = [r for r in reach_rejections(ctx, rn, depth=1) if "Unused" in norm(r["node"]) and r["fn"] is rn]
    if not execs or not rj:
        ctx.add("4-run-upfront", rn, rn.node, None, "UNDECIDED: evaluation call / surplus-keyword rejection not found in Pipeline.run", key="surplus-before-run")
        return
    # the `if` that decides the rejection (innermost enclosing one): where it stands relative to the evaluation
    par = {id(c): p_ for p_ in ast.walk(rn.node) for c in ast.iter_child_nodes(p_)}
    g: ast.AST = rj[0]["node"]
    while id(g) in par and not isinstance(g, ast.If):
        g = par[id(g)]
    gnode = cfg.node(g) if isinstance(g, ast.If) else cfg.node(rj[0]["node"])
    before = all(cfg.dominates(gnode, e) for e in execs)
    after = all(cfg.dominates(e, gnode) for e in execs)
    ctx.tri("4-run-upfront", rn, rj[0]["node"], before and not after, after, "surplus keyword arguments are rejected before the evaluation starts",
            "Pipeline.run raises UnusedParametersError only AFTER the requested output was computed (and a missing argument only when the resolution reaches it): user functions have already run when the ill-formed call is rejected",
            "order of the surplus-keyword rejection and the evaluation not recognised", key="surplus-before-run")


def check(ctx: Ctx) -> None:
    for rule in (rule_wired, rule_no_user, rule_no_write, rule_unique_parameters, rule_clash_whole, rule_axes_validator_whole, rule_run_upfront):
        ctx.run(rule)


B, PFF, PR, RIF = "pipefunc/_pipeline/_base.py", "pipefunc/_pipefunc.py", "pipefunc/map/_prepare.py", "pipefunc/map/_run_info.py"
MUTANTS = [
    Mutant("name-table-keeps-last-duplicate-F43", "pipefunc/_pipeline/_base.py", "            validate_unique_output_names(f.output_name, output_to_func)\n            output_to_func[f.output_name] = f\n", "            output_to_func[f.output_name] = f\n", ("C12.1-wired",), why="original F43"),
    Mutant("duplicate-parameters-F39", "pipefunc/_pipefunc.py", "        if len(set(self.parameters)) != len(self.parameters):\n", "        if False:\n", ("C12.1-wired",), why="original F39"),
    Mutant("clash-exempts-bound", "pipefunc/_pipefunc.py", "        if overlap := set(self.parameters) & set(at_least_tuple(self.output_name)):\n", "        if overlap := (set(self.parameters) - set(self._bound)) & set(at_least_tuple(self.output_name)):\n", ("C12.1-wired",), why="round-4 seed C12/10"),
    Mutant("defaults-none-as-absent", "pipefunc/_pipeline/_validation.py", "            if arg not in arg_defaults:\n                arg_defaults[arg] = default_value\n            elif default_value != arg_defaults[arg]:\n",
           "            if (known := arg_defaults.get(arg)) is None:\n                arg_defaults[arg] = default_value\n            elif default_value != known:\n", ("C12.1-wired",), why="round-2 seed C12/6"),
    Mutant("validate-skips-scopes", B, "        validate_scopes(self.functions)\n        validate_consistent_defaults", "        validate_consistent_defaults", ("C12.1-wired",)),
    Mutant("graph-no-defaults-check", B, "        validate_consistent_defaults(self.functions, output_to_func=self.output_to_func)\n        g = nx.DiGraph()\n", "        g = nx.DiGraph()\n", ("C12.1-wired",), why="seeded C12/2"),
    Mutant("mapspec-names-unsorted", B, "            for mapspec in self.mapspecs()\n            for name in mapspec.input_names + mapspec.output_names\n", "            for mapspec in self.mapspecs(ordered=False)\n            for name in mapspec.input_names + mapspec.output_names\n", ("C12.1-wired",), why="seeded C12/3"),
    Mutant("update-bound-no-validate", PFF, "            self._bound = dict(self._bound, **bound)\n        self._clear_internal_cache()\n        self._validate()\n", "            self._bound = dict(self._bound, **bound)\n        self._clear_internal_cache()\n", ("C12.1-wired",)),
    Mutant("prepare-no-axes-check", PR, "    validate_consistent_axes(pipeline.mapspecs(ordered=False))\n", "", ("C12.1-wired",)),
    Mutant("prepare-complete-inputs-only-when-no-subpipeline", PR, "    _validate_complete_inputs(pipeline, inputs)\n", "    if not auto_subpipeline:\n        _validate_complete_inputs(pipeline, inputs)\n", ("C12.1-wired",)),
    Mutant("executor-check-late", PR, "    if not parallel and executor:\n        msg = \"Cannot use an executor without `parallel=True`.\"\n        raise ValueError(msg)\n    inputs = pipeline._flatten_scopes(inputs)\n", "    inputs = pipeline._flatten_scopes(inputs)\n", ("C12.1-wired",)),
    Mutant("storage-validated-late-F33", RIF, "    requires_serialization = _requires_serialization(storage)  # also validates the storage names\n    if run_folder is None and requires_serialization:\n", "    if run_folder is None and _requires_serialization(storage):\n", ("C12.1-wired", "C12.3-no-write"), why="original F33"),
    Mutant("storage-any-short-circuit-F33b", RIF, "    return any([get_storage_class(s).requires_serialization for s in storage.values()])  # noqa: C419\n", "    return any(get_storage_class(s).requires_serialization for s in storage.values())\n", ("C12.1-wired",), why="original F33b"),
    Mutant("load-writes-F03", RIF, "        data[\"defaults\"] = load(_defaults_path(run_folder))\n        return cls(**data)\n", "        data[\"defaults\"] = load(_defaults_path(run_folder))\n        run_info = cls(**data)\n        run_info._write()\n        return run_info\n", ("C12.3-no-write",), why="original F03"),
    Mutant("write-before-shapes", RIF, "        _check_inputs(pipeline, inputs)\n        shapes, masks = map_shapes(pipeline, inputs, internal_shapes)\n",
           "        if run_folder is not None:\n            dump(inputs, run_folder / \"inputs.cloudpickle\")\n        _check_inputs(pipeline, inputs)\n        shapes, masks = map_shapes(pipeline, inputs, internal_shapes)\n", ("C12.3-no-write",)),
    Mutant("store-before-fixed-indices", PR, "    _validate_fixed_indices(fixed_indices, inputs, pipeline)\n    run_info = RunInfo.create(", "    run_info = RunInfo.create(", ("C12.1-wired", "C12.3-no-write")),
    Mutant("rmtree-unconditional", RIF, "            if cleanup:\n                _cleanup_run_folder(run_folder)\n            else:\n                _compare_to_previous_run_info(pipeline, run_folder, inputs, internal_shapes)\n",
           "            _compare_to_previous_run_info(pipeline, run_folder, inputs, internal_shapes)\n            _cleanup_run_folder(run_folder)\n", ("C12.3-no-write",)),
    Mutant("user-call-in-validation", B, "        validate_scopes(self.functions)\n        validate_consistent_defaults", "        validate_scopes(self.functions)\n        _probe = [f() for f in self.functions if not f.parameters]\n        validate_consistent_defaults", ("C12.2-no-user",)),
    Mutant("twin-prepare-comment", PR, "    _validate_complete_inputs(pipeline, inputs)\n", "    _validate_complete_inputs(pipeline, inputs)  # all root args present\n", twin=True),
]
