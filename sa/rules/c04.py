"""C04 - results stored in a run folder reload exactly, from any process (structural clauses).

  1 table      run_info.json: the keys RunInfo.dump writes are exactly those RunInfo.load turns back into the
               dataclass fields; tuple keys are encoded and decoded for the same fields with the same separator;
               every non-JSON field has a decode step
  2 paths      files of a run folder are named only by the path helpers (no hand-built paths elsewhere)
  3 process    nothing process-bound is serialised: a manager proxy held in a storage field reaches the pickler only
               through a copying sanitizer (dict(...), list(...), .copy()); values are serialised by cloudpickle only
  4 rebuild    load_outputs / load_xarray_dataset get their store from RunInfo.load(...).init_store(), which rebuilds
               the arrays from the recorded shapes/masks in the constructor's argument order
  6 byte-codec every reader of pickled run-folder files undoes the byte-level transforms (compression, encoding) the writers apply
  5 persist    _maybe_persist_memory is reached synchronously on every normal exit of both drivers, persists every
               StorageBase of the store, and every storage class whose dump does not write a file overrides persist;
               masks of reloaded arrays come from what is stored, never from the loaded values
"""

from __future__ import annotations

import ast
import re

from ..cfg import ENTRY, EXIT, header_parts
from ..effects import FS_WRITE
from ..flow import Defs, Scope, guard_facts, iterations
from ..loader import AnalysisError, FuncInfo, dotted, norm, walk_no_nested
from ..report import Ctx
from ..selftest import Mutant

PROP = "C04"
TECHNIQUE = "static analysis: writer/reader codec table derived from RunInfo's field annotations (symbolic key-set replay, per-field encoder/decoder sets) + who-may-build-paths scan + proxy->pickle taint + CFG must-pass of persistence + suffix-operation rule on name-derived paths + subclass-constructor rebinding rule + byte-codec agreement between every pickle writer and reader of the run folder + record-written-on-every-path must-pass + typed whole-name-vs-single-name membership rule (annotation typer, reaching definitions) + run-folder-only choice between file path and in-memory value"
RI = "pipefunc.map._run_info"
EXPLANATION = (
    "Static analysis: symbolic key-set bookkeeping of RunInfo.dump against RunInfo.load (writer/reader table), a "
    "who-may-build-paths scan, an inter-procedural field taint from multiprocessing.Manager proxies to pickling sinks "
    "with copying sanitizers, def-use of the store used by the loaders, argument-order agreement between _init_arrays "
    "and the storage constructors, and must-pass-through of _maybe_persist_memory on the exits of both drivers."
)
TRUSTED = ["CPython ast parser", "json round-trips str/int/bool/list/dict/None", "cloudpickle pickles functions/classes of __main__ by value; plain pickle does not"]
DECLINED = [
    "equality of reloaded values (pickle round-trip semantics) and fresh-interpreter behaviour as such (needs execution)",
    "xarray content of load_xarray_dataset (C19)", "zarr stores (not importable in this sandbox)",
]

PATH_HELPERS = {
    f"{RI}._input_path", f"{RI}._defaults_path", f"{RI}._output_path", f"{RI}._maybe_array_path", f"{RI}.RunInfo.path",
    "pipefunc.map._storage_array._dict.DictArray._path", "pipefunc.map._storage_array._file.FileArray._index_to_file",
}
PATH_EXEMPT = {  # builders of paths that are not result files of a run folder: reason
    "pipefunc.map.adaptive.LearnersDict.to_slurm_run": "adaptive_scheduler's own folder",
    "pipefunc.map.adaptive.create_learners_from_sweep": "one run folder per sweep entry (a folder name, not a result file)",
}
IO_CALLS = {"open", "load", "dump", "mkdir", "exists", "unlink", "read_bytes", "write_bytes", "read_text", "write_text", "rmtree", "glob", "iterdir", "is_file", "is_dir",
            "atomic_write", "touch", "rename", "replace", "loads", "dumps", "stat"}
SANITIZERS = {"dict", "list", "tuple", "set", "copy.copy", "copy.deepcopy"}


def _last(name: str) -> str:
    return name.rsplit(".", 1)[-1]


def _calls_feeding(ctx: Ctx, fn: FuncInfo, e: ast.AST, depth: int = 2, seen: set[str] | None = None, exclude: frozenset[str] = frozenset()) -> set[str]:
    """Names of the functions applied on the way to the value `e` (through locals and private helpers of the module)."""
    seen = seen if seen is not None else set()
    out: set[str] = set()
    for c in [c for c in ast.walk(e) if isinstance(c, ast.Call)]:
        nm = _last(dotted(c.func)) or (c.func.attr if isinstance(c.func, ast.Attribute) else "")
        out.add(nm)
        for callee in ctx.cg.resolve_callable(fn, c.func):
            if callee.module.name == fn.module.name and callee.qualname not in seen and callee.name.startswith("_"):
                seen.add(callee.qualname)
                out |= _calls_feeding(ctx, callee, callee.node, 0, seen)
    if depth:
        bound = {x.id for c in ast.walk(e) if isinstance(c, ast.comprehension) for x in ast.walk(c.target) if isinstance(x, ast.Name)}
        for n in {x.id for x in ast.walk(e) if isinstance(x, ast.Name)} - exclude - bound:
            for st in ast.walk(fn.node):
                if isinstance(st, (ast.Assign, ast.AnnAssign)) and st.value is not None:
                    tg = st.targets if isinstance(st, ast.Assign) else [st.target]
                    if any((isinstance(t, ast.Name) and t.id == n) or (isinstance(t, ast.Subscript) and isinstance(t.value, ast.Name) and t.value.id == n) for t in tg) and st.value is not e:
                        out |= _calls_feeding(ctx, fn, st.value, depth - 1, seen, exclude)
                if isinstance(st, ast.For) and any(isinstance(x, ast.Name) and x.id == n for x in ast.walk(st.target)):
                    out |= _calls_feeding(ctx, fn, st.iter, depth - 1, seen, exclude)
    return out


def _field_ops(ctx: Ctx, fn: FuncInfo, var: str) -> dict[str, set[str]]:
    """key -> functions applied to what is stored into `var[key]` in `fn` (loops over literal key lists expanded)."""
    ops: dict[str, set[str]] = {}
    par = {id(c): p for p in ast.walk(fn.node) for c in ast.iter_child_nodes(p)}
    for st in ast.walk(fn.node):
        if not isinstance(st, ast.Assign):
            continue
        for t in st.targets:
            if not (isinstance(t, ast.Subscript) and isinstance(t.value, ast.Name) and t.value.id == var):
                continue
            keys = _literal_keys(fn, t.slice, st, par) or []
            for k in keys:
                ops.setdefault(k, set()).update(_calls_feeding(ctx, fn, st.value, exclude=frozenset({var})))
    return ops


def _data_var(fn: FuncInfo, *makers: str) -> str | None:
    for st in walk_no_nested(fn.node):
        if isinstance(st, ast.Assign) and isinstance(st.targets[0], ast.Name) and isinstance(st.value, ast.Call) and _last(dotted(st.value.func)) in makers:
            return st.targets[0].id
        if isinstance(st, ast.With):
            for s2 in ast.walk(st):
                if isinstance(s2, ast.Assign) and isinstance(s2.targets[0], ast.Name) and isinstance(s2.value, ast.Call) and _last(dotted(s2.value.func)) in makers:
                    return s2.targets[0].id
    return None


def _literal_keys(fn: FuncInfo, key: ast.AST, at: ast.AST, par: dict) -> list[str] | None:
    """The literal string keys `key` can denote at statement `at`: a constant, or the target of an enclosing loop over a
    literal list / tuple (also one that is extended with `.append("...")`)."""
    if isinstance(key, ast.Constant) and isinstance(key.value, str):
        return [key.value]
    if isinstance(key, ast.Name):
        x: ast.AST = at
        while id(x) in par:
            x = par[id(x)]
            if isinstance(x, ast.For) and norm(x.target) == key.id:
                src = x.iter
                if isinstance(src, (ast.List, ast.Tuple)) and all(isinstance(e, ast.Constant) for e in src.elts):
                    return [e.value for e in src.elts]
                if isinstance(src, ast.Name):
                    d = [a.value for a in ast.walk(fn.node) if isinstance(a, ast.Assign) and any(norm(tt) == src.id for tt in a.targets)]
                    if d and all(isinstance(v, (ast.List, ast.Tuple)) and all(isinstance(e, ast.Constant) for e in v.elts) for v in d):
                        return [e.value for v in d for e in v.elts] + [c.args[0].value for c in ast.walk(fn.node) if isinstance(c, ast.Call) and norm(c.func) == f"{src.id}.append" and c.args and isinstance(c.args[0], ast.Constant)]
                    # a module-level (or class-level) constant tuple / list / frozenset of names
                    mv = fn.module.assigns.get(src.id) if not d else None
                    if mv is None and not d and fn.cls is not None:
                        mv = fn.cls.class_assigns.get(src.id)
                    if isinstance(mv, ast.Call) and dotted(mv.func) in ("tuple", "list", "frozenset", "set") and len(mv.args) == 1:
                        mv = mv.args[0]
                    if isinstance(mv, (ast.List, ast.Tuple, ast.Set)) and all(isinstance(e, ast.Constant) for e in mv.elts):
                        return [e.value for e in mv.elts]
                return None
    return None


def _key_events(fn: FuncInfo, var: str) -> list[tuple[tuple[int, int], str, str]] | None:
    """Source-ordered edits of the key set of the mapping `var` in `fn`: ("store" | "del" | "pop", key); None when a
    key cannot be determined."""
    par = {id(c): p for p in ast.walk(fn.node) for c in ast.iter_child_nodes(p)}
    ev: list[tuple[tuple[int, int], str, str]] = []
    for n in ast.walk(fn.node):
        kind = key = None
        if isinstance(n, ast.Subscript) and isinstance(n.value, ast.Name) and n.value.id == var and isinstance(n.ctx, (ast.Store, ast.Del)):
            kind, key = ("store" if isinstance(n.ctx, ast.Store) else "del"), n.slice
        elif isinstance(n, ast.Call) and isinstance(n.func, ast.Attribute) and isinstance(n.func.value, ast.Name) and n.func.value.id == var and n.func.attr in ("pop", "setdefault", "update", "clear", "popitem"):
            if n.func.attr in ("update", "clear", "popitem") or not n.args:
                return None
            kind, key = ("pop" if n.func.attr == "pop" else "store"), n.args[0]
        if kind is None:
            continue
        keys = _literal_keys(fn, key, n, par)
        if keys is None:
            return None
        # an assignment's target is written after its value was evaluated (a pop inside the value comes first)
        pos = (n.lineno, n.col_offset) if kind != "store" else (getattr(par.get(id(n)), "end_lineno", n.lineno), 10_000)
        ev += [(pos, kind, k) for k in keys]
    return sorted(ev)


def _keys_subscripted(fn_node: ast.AST, var: str, ctxs=(ast.Store, ast.Del, ast.Load)) -> list[tuple[str, ast.Subscript]]:
    out = []
    for n in ast.walk(fn_node):
        if isinstance(n, ast.Subscript) and isinstance(n.value, ast.Name) and n.value.id == var and isinstance(n.slice, ast.Constant) and isinstance(n.ctx, ctxs):
            out.append((n.slice.value, n))
    return out


def rule_table(ctx: Ctx) -> None:  # noqa: C901
    P = ctx.prog
    ri = P.cls(f"{RI}.RunInfo")
    fields = set(ri.fields)
    dump, load = ri.methods["dump"], ri.methods["load"]
    dv, lv = _data_var(dump, "asdict"), _data_var(load, "load", "loads")
    if dv is None or lv is None:
        raise AnalysisError("RunInfo.dump / RunInfo.load: the mapping that is written / read was not found")
    ev_d, ev_l = _key_events(dump, dv), _key_events(load, lv)
    if ev_d is None or ev_l is None:
        ctx.add("1-table", load, load.node, None, "UNDECIDED: the mapping is edited under a key that is not a literal (or not a loop over literals): the key set cannot be replayed", key="keyset")
    else:
        after = set(fields)
        for _pos, kind, k in ev_d:
            (after.add if kind == "store" else after.discard)(k)
        written = set(after)
        for _pos, kind, k in ev_l:  # stores, pops and deletions of load() replayed in source order
            (after.add if kind == "store" else after.discard)(k)
        stored_l = {k for _p, kind, k in ev_l if kind == "store"}
        removed_l = {k for _p, kind, k in ev_l if kind != "store"}
        ctx.add("1-table", load, load.node, after == fields, f"keys written {sorted(written)} are turned back into exactly the dataclass fields" if after == fields else
                f"writer/reader disagree: written={sorted(written)}, removed on load={sorted(removed_l)}, added on load={sorted(stored_l)} -> {sorted(after)} but the fields are {sorted(fields)}", key="keyset")
        read_l = {k for k, n in _keys_subscripted(load.node, lv, (ast.Load,))} | {k for _p, kind, k in ev_l if kind == "pop"}
        unknown = read_l - written - stored_l
        ctx.add("1-table", load, load.node, not unknown, "load only reads keys that dump writes" if not unknown else f"load reads keys that dump never writes: {sorted(unknown)}", key="reads-written")
    ctor = [c for c in ast.walk(load.node) if isinstance(c, ast.Call) and norm(c.func) in ("cls", "RunInfo")]
    ctx.tri("1-table", load, ctor[0] if ctor else load.node, bool(ctor) and any(k.arg is None and norm(k.value) == lv for k in ctor[0].keywords), False, "the decoded mapping is passed whole to the constructor", "", "construction from the decoded mapping not recognised", key="ctor")
    ops_d, ops_l = _field_ops(ctx, dump, dv), _field_ops(ctx, load, lv)
    # the tuple-key codec is found by what it does: a private helper of the module that joins / splits on a separator
    mod = P.module(RI)

    def sep_of(e: ast.AST) -> str | None:
        if isinstance(e, ast.Constant) and isinstance(e.value, str):
            return e.value
        if isinstance(e, ast.Name) and isinstance(mod.assigns.get(e.id), ast.Constant):
            return mod.assigns[e.id].value
        return None

    joiners = {f_.name: {sep_of(c.func.value) for c in ast.walk(f_.node) if isinstance(c, ast.Call) and isinstance(c.func, ast.Attribute) and c.func.attr == "join"} for f_ in P.functions_in(RI) if f_.cls is None}
    splitters = {f_.name: {sep_of(c.args[0]) for c in ast.walk(f_.node) if isinstance(c, ast.Call) and isinstance(c.func, ast.Attribute) and c.func.attr == "split" and c.args} for f_ in P.functions_in(RI) if f_.cls is None}
    joiners = {k: v for k, v in joiners.items() if v and "isinstance" in norm(P.func(f"{RI}.{k}").node)}
    splitters = {k: v for k, v in splitters.items() if v and "tuple(" in norm(P.func(f"{RI}.{k}").node)}
    enc = {k for k, v in ops_d.items() if v & set(joiners)}
    dec = {k for k, v in ops_l.items() if v & set(splitters)}
    ctx.tri("1-table", dump, dump.node, enc == dec and {"shapes", "shape_masks"} <= enc, bool(enc) and bool(dec) and enc != dec, f"tuple keys encoded and decoded for the same fields {sorted(enc)}",
            f"tuple keys are encoded for {sorted(enc)} but decoded for {sorted(dec)}: {sorted(enc ^ dec)} reload(s) with other keys than were recorded", "tuple-key coding not recognised", key="tuple-keys")
    seps_w = {x for k in joiners for x in joiners[k]}
    seps_r = {x for k in splitters for x in splitters[k]}
    t2s = P.func(f"{RI}.{sorted(joiners)[0]}") if joiners else dump
    ctx.tri("1-table", t2s, t2s.node, bool(seps_w) and seps_w == seps_r and None not in seps_w, bool(seps_w) and bool(seps_r) and None not in (seps_w | seps_r) and seps_w != seps_r, "same separator for joining and splitting tuple keys",
            f"separator mismatch: tuple keys are written with {seps_w} and split on {seps_r}", "separators not recognised", key="separator")
    # decode requirements derived from the field annotations
    need: dict[str, str] = {}
    for fname, ann in ri.fields.items():
        t = norm(ann.annotation) if ann.annotation is not None else ""
        if t.startswith("set[") or t.startswith("frozenset["):
            need[fname] = "set"
        elif t.startswith("Path") or "Path |" in t or "| Path" in t:
            need[fname] = "Path"
        elif "tuple[" in t and t.startswith("dict["):
            need[fname] = "tuple"
    for fname, ctor_ in sorted(need.items()):
        if fname in ("inputs", "defaults"):
            continue
        got = ops_l.get(fname, set())
        ctx.add("1-table", load, load.node, ctor_ in got, f"`{fname}` is decoded back with {ctor_}(...)" if ctor_ in got else
                f"`{fname}` is annotated `{norm(ri.fields[fname].annotation)[:40]}` but comes back from JSON without a {ctor_}(...) step: the reloaded RunInfo differs from the recorded one", key=f"decode {fname}")
    for k in ("inputs", "defaults"):
        got = ops_l.get(k, set())
        ctx.add("1-table", load, load.node, "load" in got, f"`{k}` are read back from the recorded path(s)" if "load" in got else f"`{k}` are not reloaded from the recorded path(s)", key=f"reload {k}")


def rule_whole_name_membership(ctx: Ctx) -> None:
    """An output name is `str | tuple[str, ...]` (the tuple is the name of a multi-output function); the stores, shapes and the
    names a caller asks for are keyed by the single names.  Testing the WHOLE name for membership in a collection of single names
    is False for every multi-output function - its outputs are silently left out (never initialised, never loaded)."""
    from ..flow import reaching_value

    P = ctx.prog
    ty = ctx.cg.typer

    def alts(t):
        return list(t.args) if t.kind == "union" else [t]

    def str_and_tuple(t) -> bool:
        a = alts(t)
        return any(x.kind == "builtin" and x.name == "str" for x in a) and any(x.kind in ("tuple", "seq") for x in a)

    def only_str_elements(t) -> bool:
        els = []
        for x in alts(t):
            if x.kind == "none":
                continue
            if x.kind in ("seq", "set"):
                els.append(x.elem())
            elif x.kind == "map" and x.args:
                els.append(x.args[0])
            else:
                return False
        return bool(els) and all(e.kind == "builtin" and e.name == "str" for e in els)

    n = 0
    for f in P.functions.values():
        if not f.module.name.startswith("pipefunc.map."):
            continue
        cfg = None
        for cmp_ in walk_no_nested(f.node):
            if not (isinstance(cmp_, ast.Compare) and len(cmp_.ops) == 1 and isinstance(cmp_.ops[0], (ast.In, ast.NotIn))):
                continue
            left, right = cmp_.left, cmp_.comparators[0]
            if not str_and_tuple(ty.expr(f, left)) or not only_str_elements(ty.expr(f, right)):
                continue
            # the value that reaches THIS test (a name can be rebound to a single name by a loop further down)
            if isinstance(left, ast.Name):
                cfg = cfg or ctx.cfg(f)
                use = cfg.node_containing(cmp_)
                val = reaching_value(cfg, left.id, use) if use is not None else None
                decl = [a_ for a_ in walk_no_nested(f.node) if isinstance(a_, ast.AnnAssign) and isinstance(a_.target, ast.Name) and a_.target.id == left.id and a_.value is val]
                if val is None or not (decl or str_and_tuple(ty.expr(f, val))):
                    continue
            # an isinstance test of the name on the way narrows it
            cfg = cfg or ctx.cfg(f)
            use = cfg.node_containing(cmp_)
            if use is not None and any(f"isinstance({norm(left)}" in t_ for t_, _p in guard_facts(cfg, Defs(f), use)):
                continue
            if any(isinstance(c_, ast.Call) and dotted(c_.func) == "isinstance" and c_.args and norm(c_.args[0]) == norm(left) for c_ in ast.walk(cmp_)):
                continue
            n += 1
            ctx.add("1-table", f, cmp_, False, f"`{norm(cmp_)[:70]}` tests a whole output name (a tuple for a multi-output function) for membership in a collection of single names: "
                    "it is never found for a multi-output function, whose outputs are then left out - they are not set up / not loaded, and the reader gets None instead of the stored data", key=f"whole-name {f.name} {norm(cmp_)[:50]}")
    ctx.add("1-table", "pipefunc.map", "", True, f"membership tests of whole output names against single-name collections: {n} found", key="whole-name-scan")


def rule_fresh_load(ctx: Ctx) -> None:
    """Every reload deserialises again: results are not served from a process-wide cache of mutable objects."""
    P = ctx.prog
    for q in (f"{RI}.RunInfo.load", "pipefunc.map._load.load_outputs", "pipefunc.map._run._load_from_store"):
        f = P.func(q)
        cached = [c for _f, c in Scope(ctx, f).calls("load") if any(k.arg == "cache" and not (isinstance(k.value, ast.Constant) and k.value.value is False) for k in c.keywords)]
        ctx.add("1-table", f, cached[0] if cached else f.node, not cached, f"{f.name} unpickles on every call" if not cached else
                f"`{norm(cached[0])[:60]}` serves the object from a process-wide cache: all callers share one mutable object, so an in-place edit of a reloaded input/default shows up in every later reload although the folder is untouched", key=f"fresh-load {f.name}")


def _path_shape(fn: FuncInfo, e: ast.AST) -> str:
    """Spelling-independent shape of a `/`-built path: the base is `<base>`, literal segments are kept (module constants spelled
    out), interpolated values become `{}`:  run_folder / 'outputs' / f'{name}.cloudpickle'  ->  <base>/outputs/{}.cloudpickle"""
    def seg(x: ast.AST) -> str:
        if isinstance(x, ast.Constant) and isinstance(x.value, str):
            return x.value
        if isinstance(x, ast.Name) and isinstance(fn.module.assigns.get(x.id), ast.Constant):
            return str(fn.module.assigns[x.id].value)
        if isinstance(x, ast.JoinedStr):
            return "".join(str(v.value) if isinstance(v, ast.Constant) else "{}" for v in x.values)
        if isinstance(x, ast.Call) and isinstance(x.func, ast.Attribute) and x.func.attr == "format":
            return re.sub(r"\{[^}]*\}", "{}", seg(x.func.value))
        if isinstance(x, ast.Attribute) and "template" in x.attr:
            return "<template>"
        return "{}"

    parts: list[str] = []
    while isinstance(e, ast.BinOp) and isinstance(e.op, ast.Div):
        parts.append(seg(e.right))
        e = e.left
    return "/".join(["<base>", *reversed(parts)])


def rule_paths(ctx: Ctx) -> None:
    P = ctx.prog
    ri = P.cls(f"{RI}.RunInfo")
    n_paths = 0
    # pass 1: every hand-built path (a `/` with a literal segment), with what its function does to files
    WRITES = {"dump", "mkdir", "write_bytes", "write_text", "atomic_write", "touch", "rename", "replace", "dumps"}
    sites = []
    for mod in ("pipefunc.map._run", "pipefunc.map._run_info", "pipefunc.map._load", "pipefunc.map._prepare", "pipefunc.map.adaptive",
                "pipefunc.map._storage_array._file", "pipefunc.map._storage_array._dict", "pipefunc.map._storage_array._base", "pipefunc.map.xarray"):
        for fn in P.functions_in(mod):
            d_ = Defs(fn)
            for b_ in [b_ for b_ in walk_no_nested(fn.node) if isinstance(b_, ast.BinOp) and isinstance(b_.op, ast.Div)]:
                if not any(isinstance(x, (ast.Constant, ast.JoinedStr)) and (not isinstance(x, ast.Constant) or isinstance(x.value, str)) for x in (b_.left, b_.right)) and "format(" not in norm(b_.right):
                    # a module-level constant as the literal segment counts too
                    if not (isinstance(b_.right, ast.Name) and isinstance(fn.module.assigns.get(b_.right.id), ast.Constant)):
                        # ... and so does a chain that has a literal segment further down (`folder / "outputs" / name`): it is the
                        # maximal expression whose shape is compared, not its literal prefix
                        chain, lit = b_.left, False
                        while isinstance(chain, ast.BinOp) and isinstance(chain.op, ast.Div):
                            lit = lit or (isinstance(chain.right, ast.Constant) and isinstance(chain.right.value, str)) or isinstance(chain.right, ast.JoinedStr)
                            chain = chain.left
                        if not lit:
                            continue
                io = [c for c in walk_no_nested(fn.node) if isinstance(c, ast.Call) and _last(dotted(c.func) or (c.func.attr if isinstance(c.func, ast.Attribute) else "")) in IO_CALLS]
                returns = any(isinstance(r, ast.Return) and r.value is not None for r in walk_no_nested(fn.node))
                text = _path_shape(fn, d_.resolve(b_))
                writes = any(_last(dotted(c.func) or (c.func.attr if isinstance(c.func, ast.Attribute) else "")) in WRITES for c in io)
                sites.append((fn, b_, text, io, returns, writes))
    # pass 2: a pure helper is fine; a path built by hand in a function that accesses files is fine as long as every such READ
    # path is spelled exactly like a WRITE path of the same class / module (writer and reader agree); a reader-only spelling is
    # the drift the rule exists for
    for fn, b_, text, io, returns, writes in sites:
        n_paths += 1
        if fn.qualname in PATH_EXEMPT or (returns and not io):
            ctx.add("2-paths", fn, b_, True, "path built by a path helper (a function that only computes and returns paths)", key=f"path in {fn.name}: {norm(b_)[:50]}")
            continue
        written = {s_[2] for s_ in sites if s_[5]} | {s_[2] for s_ in sites if s_[4] and not s_[3]}  # writers and pure helpers, package-wide
        maximal = not any(o[1] is not b_ and any(x is b_ for x in ast.walk(o[1])) for o in sites if o[0] is fn)
        if not maximal:
            ctx.add("2-paths", fn, b_, True, "prefix of a longer path expression (judged there)", key=f"path in {fn.name}: {norm(b_)[:50]}")
            continue
        agrees = writes or text in written
        ctx.tri("2-paths", fn, b_, agrees, bool(io) and not writes and bool(written) and text not in written,
                "hand-built path, spelled exactly like the path the writer of this class/module uses",
                f"`{norm(b_)[:70]}` is built by hand in a function that reads files, and no writer (or path helper) of the same class/module spells the path that way (writers use {sorted(written)[:2]}): writer and reader can drift apart",
                f"`{norm(b_)[:50]}`: no writer in this class/module to compare with", key=f"path in {fn.name}: {norm(b_)[:50]}")
    ctx.floor("2-paths", n_paths, 6)
    wr = ri.methods["_write"]
    reach = ctx.cg.reachable(wr.qualname)
    for h in ("_input_path", "_defaults_path"):
        ctx.tri("2-paths", wr, wr.node, f"{RI}.{h}" in reach, False, f"the writer names its files through {h}", "", f"{h} is not reached from RunInfo._write", key=f"users {h}")
    its = [it for it in iterations(wr.node) if "self.inputs" in norm(it["iter"]) or "input_paths" in norm(it["iter"])]
    part = [it for it in its if isinstance(it["iter"], ast.Subscript) or it["filters"]]
    ctx.tri("2-paths", wr, wr.node, bool(its) and not part, bool(part), "every input is written", "only part of the inputs is written: RunInfo.load fails on the missing files", "writing of the inputs not recognised", key="write-all")


def rule_path_names(ctx: Ctx) -> None:
    """File names are derived from input/output names by appending: a name may contain dots (scopes: `s.x`), so
    `Path.with_suffix` / `.stem` / `.with_name` - which treat everything after the last dot as a suffix - must not be applied
    to a path whose last component is such a name (`inputs/s.x` and `inputs/s.a` would both become `inputs/s.cloudpickle`)."""
    P = ctx.prog
    n = 0
    for fn in P.functions_in(RI):
        name_params = [p_.arg for p_ in fn.params if p_.annotation is not None and norm(p_.annotation) in ("str", "OUTPUT_TYPE") and "name" in p_.arg]
        if not name_params:
            continue
        for c in [c for c in ast.walk(fn.node) if isinstance(c, (ast.Call, ast.Attribute))]:
            attr = c.func.attr if isinstance(c, ast.Call) and isinstance(c.func, ast.Attribute) else (c.attr if isinstance(c, ast.Attribute) else None)
            if attr not in ("with_suffix", "with_name", "with_stem", "stem", "suffix"):
                continue
            recv = c.func.value if isinstance(c, ast.Call) else c.value
            tail = recv.right if isinstance(recv, ast.BinOp) and isinstance(recv.op, ast.Div) else recv
            if any(isinstance(x, ast.Name) and x.id in name_params for x in ast.walk(tail)):
                n += 1
                ctx.add("2-paths", fn, c, False, f"`{norm(c)[:60]}` applies `.{attr}` to a path that ends in the name `{name_params[0]}`: for a dotted (scoped) name the part after the last dot is taken for a suffix, so different names share one file", key=f"suffix {fn.name}")
    ctx.add("2-paths", RI, "", True, f"path helpers scanned for suffix operations on name components ({n} found)", key="suffix-scan")
    # a subclass constructor must not rebind, after super().__init__(), an attribute that the base constructor has already filled
    # (DictArray.__init__ loads the persisted elements into self._dict; rebinding it afterwards drops them)
    m = 0
    for cls in [c for c in P.classes.values() if c.module.name.startswith("pipefunc.map._storage_array")]:
        init = dict.get(cls.methods, "__init__")
        if init is None:
            continue
        sup = [st for st in init.node.body if isinstance(st, ast.Expr) and isinstance(st.value, ast.Call) and norm(st.value.func) == "super().__init__"]
        if not sup:
            continue
        base_attrs: set[str] = set()
        for b in P.mro(cls.qualname)[1:]:
            bi = dict.get(b.methods, "__init__")
            if bi is not None:
                base_attrs |= {t.attr for a in ast.walk(bi.node) if isinstance(a, (ast.Assign, ast.AnnAssign)) for t in (a.targets if isinstance(a, ast.Assign) else [a.target]) if isinstance(t, ast.Attribute) and norm(t.value) == "self"}
        after = [st for st in init.node.body if st.lineno > sup[0].lineno]
        for a in [a for st in after for a in ast.walk(st) if isinstance(a, (ast.Assign, ast.AnnAssign))]:
            for t in (a.targets if isinstance(a, ast.Assign) else [a.target]):
                if isinstance(t, ast.Attribute) and norm(t.value) == "self" and t.attr in base_attrs:
                    m += 1
                    ctx.add("4-rebuild", init, a, False, f"`{norm(a)[:60]}` rebinds `self.{t.attr}` after super().__init__() has set it up (the base constructor loads the persisted elements into it): a reopened array comes back empty", key=f"rebinds {cls.name}.{t.attr}")
    ctx.add("4-rebuild", "pipefunc.map._storage_array", "", True, f"subclass constructors scanned for rebinding base state after super().__init__() ({m} found)", key="rebind-scan")


def rule_process(ctx: Ctx) -> None:
    P = ctx.prog
    tainted = _proxy_fields(ctx)
    ctx.floor("3-process.tainted-classes", len(tainted), 1)
    n_sink = 0
    for cls_q, fields_t in tainted.items():
        for c in P.mro(cls_q):
            for m in c.methods.values():
                d = Defs(m)
                for call in [x for x in walk_no_nested(m.node) if isinstance(x, ast.Call) and _last(dotted(x.func)) in ("dump", "dumps")]:
                    if not call.args:
                        continue
                    a0 = d.resolve(call.args[0])
                    bare = isinstance(a0, ast.Attribute) and isinstance(a0.value, ast.Name) and a0.value.id == "self" and a0.attr in fields_t
                    wrapped = isinstance(a0, (ast.Call, ast.Dict, ast.DictComp)) and (not isinstance(a0, ast.Call) or dotted(a0.func) in SANITIZERS or (isinstance(a0.func, ast.Attribute) and a0.func.attr == "copy")) and any(
                        isinstance(x, ast.Attribute) and x.attr in fields_t for x in ast.walk(a0))
                    if not (bare or wrapped):
                        continue
                    n_sink += 1
                    ctx.add("3-process", m, call, wrapped, f"the proxy-backed field is copied into a plain container before pickling ({_last(cls_q)})" if wrapped else
                            f"`{norm(call)[:60]}` pickles self.{a0.attr}, which is a multiprocessing manager proxy in {_last(cls_q)}: the file can only be read while that manager process lives",  # type: ignore[union-attr]
                            key=f"sink {_last(cls_q)}.{m.name}")
    ctx.floor("3-process.sinks", n_sink, 1)
    ud = P.func("pipefunc._utils.dump")
    ser = sorted({dotted(c.func) for _f, c in Scope(ctx, ud).walk() if isinstance(c, ast.Call) and _last(dotted(c.func)) in ("dump", "dumps") and "." in dotted(c.func)})
    ctx.tri("3-process", ud, ud.node, ser == ["cloudpickle.dump"] or ser == ["cloudpickle.dumps"], any(x.startswith(("pickle.", "json.", "marshal.")) for x in ser),
            "values are serialised with cloudpickle only (objects of __main__ by value)", f"dump serialises with {ser}: objects defined in the writing script are stored by reference and cannot be loaded elsewhere", f"serialisers {ser}", key="cloudpickle-only")


def rule_single_outputs_on_disk(ctx: Ctx) -> None:
    """With a run folder, the output of a function without MapSpec is a FILE (nothing else persists it: the end-of-run persist
    step only handles arrays).  Whether init_store hands out the file path or an in-memory DirectValue may therefore depend on
    the run folder only - not on the array backend."""
    from ..flow import bool_atoms

    f = ctx.prog.func(f"{RI}.RunInfo.init_store")
    d = Defs(f)
    cfg = ctx.cfg(f)
    sites = [c for c in ast.walk(f.node) if isinstance(c, ast.Call) and dotted(c.func).rsplit(".", 1)[-1] == "DirectValue"]
    par = {id(c): p_ for p_ in ast.walk(f.node) for c in ast.iter_child_nodes(p_)}
    n = 0
    for c in sites:
        atoms: list[str] = []
        x: ast.AST = c
        while id(x) in par:
            child, x = x, par[id(x)]
            if isinstance(x, ast.IfExp) and child is not x.test:
                atoms += bool_atoms(d.resolve(x.test))
        nd = cfg.node_containing(c)
        if nd is not None:
            for test, _truth in cfg.controls(nd):
                if "not in store" in norm(test) or " in store" in norm(test):
                    continue  # whether the output already has an array
                atoms += bool_atoms(d.resolve(test))
        if not atoms:
            continue
        n += 1
        other = [a for a in atoms if "run_folder" not in a]
        ctx.add("5-persist", f, c, not other, "a single output is kept in memory only when there is no run folder" if not other else
                f"whether a single output is kept in memory (DirectValue) depends on `{other[0][:60]}`, not only on the run folder: with a run folder and that condition the output of a function without MapSpec is never written "
                "(the persist step at the end of the run only handles arrays) - load_outputs returns None for it", key="single-outputs-on-disk")
    if not n:
        ctx.add("5-persist", f, f.node, None, "UNDECIDED: the choice between a file path and DirectValue in init_store was not recognised", key="single-outputs-on-disk")


def rule_rebuild(ctx: Ctx) -> None:
    P = ctx.prog
    ri = P.cls(f"{RI}.RunInfo")
    for q in ("pipefunc.map._load.load_outputs", "pipefunc.map._load.load_xarray_dataset"):
        f = P.func(q)
        t = Scope(ctx, f).text()
        ctx.tri("4-rebuild", f, f.node, "RunInfo.load(" in t, False, f"{f.name} works from the recorded RunInfo", "", f"{f.name}: RunInfo.load(...) not found", key=f"from-run-info {f.name}")
    lo = P.func("pipefunc.map._load.load_outputs")
    t = Scope(ctx, lo).text()
    # the store handed to the loader is the one init_store() rebuilds from the record (backend, shapes, masks per output); a store
    # assembled by hand in the loader knows none of that
    d_lo = Defs(lo)
    lfs = [c for c in ast.walk(lo.node) if isinstance(c, ast.Call) and dotted(c.func).rsplit(".", 1)[-1] == "_load_from_store" and len(c.args) >= 2]
    stores = [d_lo.resolve(c.args[1]) for c in lfs]
    rebuilt = bool(stores) and all(".init_store()" in norm(x) for x in stores)
    by_hand = [x for x in stores if isinstance(x, (ast.Dict, ast.DictComp)) or (isinstance(x, ast.Call) and dotted(x.func) == "dict")]
    ctx.tri("4-rebuild", lo, lfs[0] if lfs else lo.node, (rebuilt or (not lfs and ".init_store()" in t and "_load_from_store(" in t)), bool(by_hand), "load_outputs: RunInfo.load -> init_store -> _load_from_store",
            f"load_outputs reads from a store it assembles itself (`{norm(by_hand[0])[:60] if by_hand else ''}`) instead of RunInfo.init_store(): the recorded backend, shape and mask of each output are ignored (array outputs come back as paths / the wrong kind of object)",
            "rebuild of the store not recognised", key="load-outputs")
    ist = ri.methods["init_store"]
    d = Defs(ist)
    ia_calls = [c for c in ast.walk(ist.node) if isinstance(c, ast.Call) and dotted(c.func) == "_init_arrays"]
    if ia_calls:
        a = [norm(d.resolve(x)) for x in ia_calls[0].args]
        good = len(a) >= 3 and "self.shapes[" in a[1] and "self.shape_masks[" in a[2]
        swapped = len(a) >= 3 and "self.shape_masks[" in a[1] and "self.shapes[" in a[2]
        ctx.tri("4-rebuild", ist, ia_calls[0], good, swapped, "arrays are rebuilt from the recorded shape and mask", "init_store passes the recorded mask as shape and the shape as mask", f"_init_arrays({', '.join(a)[:80]}) not recognised", key="init-store")
    base_init = P.func("pipefunc.map._storage_array._base.StorageBase.__init__")
    base_sig = [a_ for a_ in base_init.param_names() if a_ != "self"][:4]
    for sub in P.subclasses("pipefunc.map._storage_array._base.StorageBase"):
        m = sub.methods.get("__init__")
        if m is None or "zarr" in sub.module.name:
            continue
        sig = [a_ for a_ in m.param_names() if a_ != "self"][:4]
        ctx.add("4-rebuild", m, m.node, sig == base_sig, f"{sub.name} keeps the positional constructor order of StorageBase" if sig == base_sig else
                f"{sub.name}.__init__ takes {sig} but StorageBase {base_sig}: _init_arrays passes (path, external, internal, mask) positionally", key=f"ctor-sig {sub.name}")


def rule_persist(ctx: Ctx) -> None:  # noqa: C901
    P, eff = ctx.prog, ctx.effects
    for q in ("pipefunc.map._run.run_map", "pipefunc.map._run.run_map_async._run_pipeline"):
        f = P.func(q)
        cfg = ctx.cfg(f)
        nodes = set(cfg.nodes(lambda s: isinstance(s, ast.Expr) and isinstance(s.value, ast.Call) and dotted(s.value.func) == "_maybe_persist_memory"))
        anywhere = [c for c in ast.walk(f.node) if isinstance(c, ast.Call) and "_maybe_persist_memory" in norm(c)]
        ok = bool(nodes) and cfg.must_pass(ENTRY, EXIT, nodes, normal_only=True)
        wp = None if ok else cfg.witness_path(ENTRY, EXIT, nodes)
        ctx.tri("5-persist", f, cfg.stmt[min(nodes)] if nodes else f.node, ok, not ok and (bool(nodes) or not anywhere or True),
                "_maybe_persist_memory is called synchronously before every normal return",
                "a normal exit of the driver does not pass a direct call of _maybe_persist_memory (skipped, deferred or not awaited)", key=f"called {f.name}", path=cfg.describe(wp, f.module.relpath) if wp else None)
        loops = cfg.nodes(lambda s: isinstance(s, ast.For) and "topological_generations" in norm(s.iter))
        if nodes and loops:
            early = [n for n in nodes if any(lp in cfg.reachable_from(n) for lp in loops)]
            ctx.add("5-persist", f, cfg.stmt[early[0]] if early else f.node, not early, "persisting happens after the last generation" if not early else "memory storage is persisted before all generations ran", key=f"after-loop {f.name}")
    pm = P.func("pipefunc.map._run._maybe_persist_memory")
    cfg = ctx.cfg(pm)
    pn = cfg.nodes(lambda s: isinstance(s, ast.Expr) and isinstance(s.value, ast.Call) and isinstance(s.value.func, ast.Attribute) and s.value.func.attr == "persist")
    if pn:
        gs = guard_facts(cfg, Defs(pm), pn[0])
        extra = [t for t, pol in gs if not (t in pm.param_names() and pol) and not (t.startswith("isinstance(") and "StorageBase" in t and pol)]
        its = [it for it in iterations(pm.node) if ".values()" in norm(it["iter"]) or norm(it["iter"]) in pm.param_names()]
        ctx.tri("5-persist", pm, cfg.stmt[pn[0]], bool(its) and not extra, bool(extra), "every StorageBase in the store is persisted (no filter by backend)",
                f"storages are only persisted under `{extra[0] if extra else ''}`: the others keep their results in memory only", "iteration over the store not recognised", key="persist-all")
    for sub in P.subclasses("pipefunc.map._storage_array._base.StorageBase"):
        if "zarr" in sub.module.name:
            continue
        dmp = P.find_method(sub.qualname, "dump")
        per = P.find_method(sub.qualname, "persist")
        writes_on_dump = dmp is not None and eff.has(dmp.qualname, FS_WRITE)
        persists = per is not None and per.cls is not None and per.cls.name != "StorageBase" and eff.has(per.qualname, FS_WRITE)
        ok = writes_on_dump or persists
        ctx.add("5-persist", sub.qualname, sub.loc, ok, f"{sub.name}: {'dump writes files' if writes_on_dump else 'persist() writes the backing store'}" if ok else f"{sub.name} keeps results in memory and has no persist() that writes them", key=f"backend {sub.name}")
    dp = P.func("pipefunc.map._storage_array._dict.DictArray.persist")
    cfg = ctx.cfg(dp)
    w = cfg.nodes(lambda s: not isinstance(s, (ast.If, ast.For)) and any(isinstance(c, ast.Call) and _last(dotted(c.func)) == "dump" for c in ast.walk(s)))
    if w:
        gs = guard_facts(cfg, Defs(dp), w[0])
        extra = [t for t, pol in gs if not (t == "self.folder is None" and not pol)]
        ctx.add("5-persist", dp, cfg.stmt[w[0]], not extra, "persist writes whenever there is a folder (no skip conditions)" if not extra else f"DictArray.persist can skip writing under `{extra[0]}`: state held by another process' copy is lost", key="dict-persist-unconditional")
    else:
        ctx.add("5-persist", dp, dp.node, False, "DictArray.persist never dumps", key="dict-persist-unconditional")
    fa = P.func("pipefunc.map._storage_array._file.FileArray.to_array")
    none_masks = [c for c in ast.walk(fa.node) if isinstance(c, ast.Compare) and any(isinstance(o, (ast.Is, ast.IsNot)) for o in c.ops) and any(isinstance(x, ast.Constant) and x.value is None for x in c.comparators)
                  and "splat_internal" not in norm(c)]
    # `x is None` is only a test of the loaded VALUE when x can hold what was unpickled; `x = np.asarray(load(f)) if f.is_file() else None`
    # is None exactly when the file is absent (presence in disguise)
    LOADERS = ("load", "loads", "_load_all", "maybe_load")
    WRAPPERS = ("np.asarray", "np.array", "numpy.asarray", "numpy.array")

    def holds_loaded_value(name: str, depth: int = 3) -> bool | None:
        vals = [a.value for a in ast.walk(fa.node) if isinstance(a, ast.Assign) and any(isinstance(t, ast.Name) and t.id == name for t in a.targets)]
        its = [it for it in iterations(fa.node) if any(isinstance(x, ast.Name) and x.id == name for x in ast.walk(it["target"]))]
        if its:
            src = its[0]["iter"]
            if isinstance(src, ast.Name) and depth:
                return holds_loaded_value(src.id, depth - 1)
            vals = [src]
        if not vals:
            return None
        verdict: bool | None = False
        for v in vals:
            arms = [v.body, v.orelse] if isinstance(v, ast.IfExp) else [v]
            for arm in arms:
                if isinstance(arm, ast.Constant) and arm.value is None:
                    continue
                if isinstance(arm, ast.Call) and dotted(arm.func) in WRAPPERS:
                    continue  # an array object, never None
                if isinstance(arm, ast.Call) and dotted(arm.func).rsplit(".", 1)[-1] in LOADERS:
                    return True
                if any(isinstance(c, ast.Call) and dotted(c.func).rsplit(".", 1)[-1] in LOADERS for c in ast.walk(arm)):
                    return True
                verdict = None
        return verdict

    verdicts = [holds_loaded_value(c.left.id) if isinstance(c.left, ast.Name) else None for c in none_masks]
    ctx.tri("5-persist", fa, none_masks[0] if none_masks else fa.node, "mask_linear()" in norm(fa.node) and all(v is False for v in verdicts), any(v is True for v in verdicts), "FileArray.to_array masks by file presence",
            "FileArray.to_array derives the mask from the loaded values: a stored None reloads as missing", "an `is None` test in to_array: whether its operand can hold an unpickled value is not decided", key="mask-from-files")


def rule_load_from_given_folder(ctx: Ctx) -> None:
    """RunInfo.load(F) reads the inputs, the defaults and (through the run_folder it returns) the outputs from F - the folder it
    was asked for - not from path strings recorded in run_info.json.  Recorded paths are relative to the working directory of the
    process that wrote them when the run was started with a relative run_folder: a fresh interpreter with another working directory
    (or a moved folder) then cannot reload the run."""
    from ..flow import dependence_text

    P = ctx.prog
    ld = P.cls("pipefunc.map._run_info.RunInfo").methods["load"]
    fparam = [p_ for p_ in ld.param_names() if p_ not in ("cls", "self")][0]
    json_names = {t.id for a in ast.walk(ld.node) if isinstance(a, ast.Assign) and any(isinstance(c, ast.Call) and dotted(c.func) in ("json.load", "json.loads") for c in ast.walk(a.value)) for t in a.targets if isinstance(t, ast.Name)}
    n = 0
    for c in [c for c in ast.walk(ld.node) if isinstance(c, ast.Call) and dotted(c.func).rsplit(".", 1)[-1] in ("load", "_cached_load") and c.args and dotted(c.func) not in ("json.load",)]:
        n += 1
        arg0 = c.args[0]
        # a path built by a helper from (name, folder): which folder?
        # where do the names in the path expression come from: followed through local definitions and loop variables, but NOT into
        # the content of run_info.json (which itself is of course read from the given folder)
        seen: set[str] = set()
        todo = [x.id for x in ast.walk(arg0) if isinstance(x, ast.Name)]
        from_param = rec_dep = False
        while todo:
            nm = todo.pop()
            if nm in seen:
                continue
            seen.add(nm)
            if nm == fparam:
                from_param = True
                continue
            if nm in json_names:
                rec_dep = True
                continue
            for a in ast.walk(ld.node):
                if isinstance(a, ast.Assign) and any(isinstance(t, ast.Name) and t.id == nm for t_ in a.targets for t in ast.walk(t_)):
                    todo += [x.id for x in ast.walk(a.value) if isinstance(x, ast.Name)]
                if isinstance(a, (ast.For, ast.comprehension)) and any(isinstance(t, ast.Name) and t.id == nm for t in ast.walk(a.target)):
                    todo += [x.id for x in ast.walk(a.iter) if isinstance(x, ast.Name)]
        _ = dependence_text
        # the NAME of an input legitimately comes from the recorded keys; what matters is where the folder part comes from
        ctx.tri("2-paths", ld, c, from_param, rec_dep and not from_param, f"`{norm(c)[:50]}` reads from the folder that was asked for",
                f"`{norm(c)[:60]}` reads from a path recorded in run_info.json, not from the `{fparam}` it was given: a run started with a relative run_folder cannot be reloaded from another working directory (or after the folder was moved)",
                f"where `{norm(arg0)[:40]}` points is not recognised", key=f"load-from-given {norm(c.func)} {n}")
    rf = [a for a in ast.walk(ld.node) if isinstance(a, ast.Assign) and any(isinstance(t, ast.Subscript) and isinstance(t.slice, ast.Constant) and t.slice.value == "run_folder" for t in a.targets)]
    if rf:
        v = rf[-1].value
        own = any(isinstance(x, ast.Name) and x.id == fparam for x in ast.walk(Defs(ld).resolve(v)))
        stored = any(isinstance(x, ast.Subscript) and isinstance(x.slice, ast.Constant) and x.slice.value == "run_folder" for x in ast.walk(v))
        ctx.tri("2-paths", ld, rf[-1], own, stored and not own, "the loaded RunInfo points at the folder that was asked for",
                "the loaded RunInfo keeps the run_folder string recorded in run_info.json: init_store / load_outputs then look for the outputs relative to the current working directory", "origin of run_folder not recognised", key="load-from-given run_folder")
    ctx.floor("2-paths.loads-in-RunInfo.load", n, 2)


def rule_record_always_written(ctx: Ctx) -> None:
    """Every run (also a resumed one) writes its description: on every normal path RunInfo.create passes `_write()`.  What a resumed
    run is compared with does not cover everything the record holds (the storage backends per output are not compared): a run that
    skips the write leaves a record that describes another run - RunInfo.load(F).storage is stale and load_outputs reads leftovers."""
    P = ctx.prog
    create = P.cls("pipefunc.map._run_info.RunInfo").methods["create"]
    cfg = ctx.cfg(create)
    writes = set(cfg.nodes(lambda s_: not isinstance(s_, (ast.If, ast.For, ast.While, ast.Try, ast.With)) and any(
        isinstance(c, ast.Call) and isinstance(c.func, ast.Attribute) and c.func.attr in ("_write", "dump") and not dotted(c.func).startswith(("json.", "cloudpickle.", "pickle.")) for c in ast.walk(s_))))
    if not writes:
        ctx.add("1-table", create, create.node, None, "UNDECIDED: no `._write()` / `.dump()` statement in RunInfo.create", key="record-always-written")
        return
    ok = cfg.must_pass(ENTRY, EXIT, writes, normal_only=True)
    w = None if ok else cfg.witness_path(ENTRY, EXIT, writes)
    ctx.add("1-table", create, cfg.stmt[sorted(writes)[0]], ok, "every normal path through RunInfo.create writes the run description" if ok else
            "RunInfo.create can return without writing the run description (a resumed run is taken to be described already): what is not part of the resume comparison - e.g. the storage backend per output - "
            "stays as the earlier run recorded it, and the folder is reloaded with the wrong backends", key="record-always-written", path=cfg.describe(w, create.module.relpath) if w else None)


def rule_byte_codec(ctx: Ctx) -> None:
    """Every reader of pickled run-folder files undoes exactly the byte-level transforms the writers apply.  The element files are
    written by ONE primitive and read by several (the generic loader, the bulk reader of FileArray that unpickles raw bytes
    itself, ...): a compression / encoding step added to the writer is invisible to a reader that was not taught it."""
    P = ctx.prog
    TRANSFORMS = ("gzip", "zlib", "bz2", "lzma", "base64", "zstandard", "zstd", "lz4", "blosc", "codecs")

    def mods(fn_: FuncInfo) -> set[str]:
        out = set()
        for c in ast.walk(fn_.node):
            if isinstance(c, ast.Call):
                head = dotted(c.func).split(".")[0]
                full = P.resolve_name(fn_.module, head, fn_).split(".")[0] if head else ""
                if full in TRANSFORMS:
                    out.add(full)
        return out

    writers, readers = [], []
    for mn in ("pipefunc._utils", "pipefunc.map"):
        for fn_ in P.functions.values():
            if not (fn_.module.name == mn or fn_.module.name.startswith(mn + ".")):
                continue
            names = {dotted(c.func) for c in walk_no_nested(fn_.node) if isinstance(c, ast.Call)}
            if names & {"cloudpickle.dump", "cloudpickle.dumps", "pickle.dump", "pickle.dumps"}:
                writers.append(fn_)
            if names & {"cloudpickle.load", "cloudpickle.loads", "pickle.load", "pickle.loads"}:
                readers.append(fn_)
    applied = {m for w in writers for m in mods(w)}
    for r in readers:
        undone = mods(r) | {m for s_ in ctx.cg.sites.get(r.qualname, []) for c in s_.callees if c.module.name.startswith(("pipefunc._utils", "pipefunc.map")) for m in mods(c)}
        ctx.add("6-byte-codec", r, r.node, applied <= undone, f"{r.name} unpickles what the writers pickle (byte-level transforms on both sides: {sorted(applied) or 'none'})" if applied <= undone else
                f"the writer(s) {sorted(w.name for w in writers if mods(w))} pass the pickle through {sorted(applied - undone)} before it reaches the file, but {r.name} hands the file's bytes to the unpickler as they are: "
                "outputs written that way cannot be reloaded through this reader (UnpicklingError)", key=f"byte-codec {r.name}")
    ctx.floor("6-byte-codec.readers", len(readers), 2)
    ctx.floor("6-byte-codec.writers", len(writers), 1)


def check(ctx: Ctx) -> None:
    for rule in (rule_table, rule_whole_name_membership, rule_fresh_load, rule_paths, rule_path_names, rule_process, rule_rebuild, rule_single_outputs_on_disk, rule_persist, rule_byte_codec, rule_load_from_given_folder, rule_record_always_written):
        ctx.run(rule)


def _proxy_fields(ctx: Ctx) -> dict[str, set[str]]:
    """class -> instance fields that hold a multiprocessing manager proxy (through constructor forwarding)."""
    P = ctx.prog
    out: dict[str, set[str]] = {}
    for cls in P.classes.values():
        if not cls.module.name.startswith("pipefunc.map._storage_array") or "zarr" in cls.module.name:
            continue
        init = cls.methods.get("__init__")
        if init is None:
            continue
        managers = set()
        proxies = set()
        for s in walk_no_nested(init.node):
            if isinstance(s, ast.Assign) and isinstance(s.targets[0], ast.Name):
                v = norm(s.value)
                if v.endswith("Manager()"):
                    managers.add(s.targets[0].id)
                if isinstance(s.value, ast.Call) and isinstance(s.value.func, ast.Attribute) and s.value.func.attr in ("dict", "list", "Lock", "Namespace") and (norm(s.value.func.value) in managers or norm(s.value.func.value).endswith("Manager()")):
                    proxies.add(s.targets[0].id)
                if isinstance(s.targets[0], ast.Attribute):
                    pass
            if isinstance(s, ast.Assign) and isinstance(s.targets[0], ast.Attribute) and isinstance(s.value, ast.Name) and s.value.id in proxies and norm(s.targets[0].value) == "self":
                out.setdefault(cls.qualname, set()).add(s.targets[0].attr)
        # forwarded through super().__init__(..., kw=proxy)
        for c in [c for c in walk_no_nested(init.node) if isinstance(c, ast.Call) and norm(c.func) == "super().__init__"]:
            for k in c.keywords:
                if isinstance(k.value, ast.Name) and k.value.id in proxies and k.arg:
                    for b in P.mro(cls.qualname)[1:]:
                        bi = b.methods.get("__init__")
                        if bi is None:
                            continue
                        for s in walk_no_nested(bi.node):
                            if isinstance(s, (ast.Assign, ast.AnnAssign)):
                                tgt = s.targets[0] if isinstance(s, ast.Assign) else s.target
                                # `self._dict = mapping`, or the parameter behind a default (`{} if mapping is None else mapping`, `mapping or {}`)
                                if isinstance(tgt, ast.Attribute) and norm(tgt.value) == "self" and s.value is not None and (
                                        (isinstance(s.value, ast.Name) and s.value.id == k.arg)
                                        or (isinstance(s.value, (ast.IfExp, ast.BoolOp)) and any(isinstance(x, ast.Name) and x.id == k.arg and not isinstance(pp, ast.Compare) for pp in ast.walk(s.value) for x in ast.iter_child_nodes(pp)))):
                                    out.setdefault(cls.qualname, set()).add(tgt.attr)
                        break
    return out


proxy_fields = _proxy_fields

RIF, R, D, U, FA, L = "pipefunc/map/_run_info.py", "pipefunc/map/_run.py", "pipefunc/map/_storage_array/_dict.py", "pipefunc/_utils.py", "pipefunc/map/_storage_array/_file.py", "pipefunc/map/_load.py"
MUTANTS = [
    Mutant("load-from-recorded-paths-F44", "pipefunc/map/_run_info.py", "        data[\"inputs\"] = {k: load(_input_path(k, run_folder)) for k in data.pop(\"input_paths\")}\n", "        data[\"inputs\"] = {k: load(Path(v)) for k, v in data.pop(\"input_paths\").items()}\n", ("C04.2-paths",), why="original F44"),
    Mutant("new-field-not-read", RIF, "        data[\"defaults_path\"] = str(self.defaults_path)\n", "        data[\"defaults_path\"] = str(self.defaults_path)\n        data[\"created\"] = \"now\"\n", ("C04.1-table",)),
    Mutant("masks-keys-not-decoded", RIF, "        for key in [\"shapes\", \"shape_masks\"]:\n            data[key] = {_maybe_str_to_tuple(k): tuple(v) for k, v in data[key].items()}\n",
           "        for key in [\"shapes\"]:\n            data[key] = {_maybe_str_to_tuple(k): tuple(v) for k, v in data[key].items()}\n", ("C04.1-table",)),
    Mutant("separator-mismatch", RIF, "        return \",\".join(x)\n", "        return \";\".join(x)\n", ("C04.1-table",)),
    Mutant("output-names-stay-list", RIF, "        data[\"all_output_names\"] = set(data[\"all_output_names\"])\n", "", ("C04.1-table",)),
    Mutant("reader-spells-path-differently", D, "        self._dict.update(load(self._path()))\n", "        self._dict.update(load(self.folder / \"dictarray.cloudpickle\"))\n", ("C04.2-paths",)),
    Mutant("persist-proxy-F04", D, "        dump(dict(self._dict), path)  # `_dict` might be a manager proxy, which cannot be unpickled later\n", "        dump(self._dict, path)\n", ("C04.3-process",), why="original F04"),
    Mutant("pickle-first", U, "    with atomic_write(path, \"wb\") as f:\n        cloudpickle.dump(obj, f)\n", "    import pickle\n\n    with atomic_write(path, \"wb\") as f:\n        try:\n            f.write(pickle.dumps(obj))\n        except Exception:  # noqa: BLE001\n            cloudpickle.dump(obj, f)\n", ("C04.3-process",), why="seeded C04/3"),
    Mutant("load-outputs-fresh-store", L, "    run_info = RunInfo.load(run_folder)\n    store = run_info.init_store()\n    outputs = [", "    run_info = RunInfo.load(run_folder)\n    store = {name: run_folder / \"outputs\" / name for name in output_names}\n    outputs = [", ("C04.4-rebuild", "C04.2-paths")),
    Mutant("persist-filter-backend", R, "            if isinstance(arr, StorageBase):\n                arr.persist()\n", "            if isinstance(arr, StorageBase) and not arr.dump_in_subprocess:\n                arr.persist()\n", ("C04.5-persist",), why="seeded C03/2"),
    Mutant("async-persist-not-awaited", R, "        _maybe_persist_memory(store, persist_memory)\n        return outputs\n\n    task = asyncio.create_task", "        asyncio.get_event_loop().run_in_executor(None, _maybe_persist_memory, store, persist_memory)\n        return outputs\n\n    task = asyncio.create_task", ("C04.5-persist",), why="seeded C03/3"),
    Mutant("sync-persist-dropped", R, "        progress.update_progress(force=True)\n    _maybe_persist_memory(store, persist_memory)\n    return outputs\n", "        progress.update_progress(force=True)\n    return outputs\n", ("C04.5-persist",)),
    Mutant("dict-persist-dirty-flag", D, "        path = self._path()\n        path.parent.mkdir(parents=True, exist_ok=True)\n", "        if not getattr(self, \"_dirty\", True):\n            return\n        path = self._path()\n        path.parent.mkdir(parents=True, exist_ok=True)\n", ("C04.5-persist",), why="seeded C04/2"),
    Mutant("filearray-mask-from-values", FA, "            mask = self.mask_linear()\n            return np.ma.MaskedArray(arr, mask=mask, dtype=object).reshape(self.shape)\n", "            mask = [x is None for x in items]\n            return np.ma.MaskedArray(arr, mask=mask, dtype=object).reshape(self.shape)\n", ("C04.5-persist",), why="seeded C04/1"),
    Mutant("twin-dump-json-indent", RIF, "            json.dump(data, f, indent=4)\n", "            json.dump(data, f, indent=2)\n", twin=True),
    Mutant("twin-load-comment", L, "    store = run_info.init_store()\n    outputs = [", "    store = run_info.init_store()  # same objects as during the run\n    outputs = [", twin=True),
]
