"""C04 - results stored in a run folder reload exactly, from any process (structural clauses).

  1 table      run_info.json: the keys RunInfo.dump writes are exactly those RunInfo.load turns back into the
               dataclass fields; tuple keys are encoded and decoded for the same fields with the same separator;
               every non-JSON field has a decode step
  2 paths      files of a run folder are named only by the path helpers (no hand-built paths elsewhere)
  3 process    nothing process-bound is serialised: a manager proxy held in a storage field reaches the pickler only
               through a copying sanitizer (dict(...), list(...), .copy()); values are serialised by cloudpickle only
  4 rebuild    load_outputs / load_xarray_dataset get their store from RunInfo.load(...).init_store(), which rebuilds
               the arrays from the recorded shapes/masks in the constructor's argument order
  5 persist    _maybe_persist_memory is reached synchronously on every normal exit of both drivers, persists every
               StorageBase of the store, and every storage class whose dump does not write a file overrides persist;
               masks of reloaded arrays come from what is stored, never from the loaded values
"""

from __future__ import annotations

import ast

from ..cfg import ENTRY, EXIT, header_parts
from ..effects import FS_WRITE
from ..loader import AnalysisError, ClassInfo, FuncInfo, dotted, norm, walk_no_nested
from ..report import Ctx
from ..selftest import Mutant

PROP = "C04"
RI = "pipefunc.map._run_info"
EXPLANATION = (
    "Static analysis: symbolic key-set bookkeeping of RunInfo.dump against RunInfo.load (writer/reader table), a "
    "who-may-build-paths scan, an inter-procedural field taint from multiprocessing.Manager proxies to pickling sinks "
    "with copying sanitizers, def-use of the store used by the loaders, argument-order agreement between _init_arrays "
    "and the storage constructors, and must-pass-through of _maybe_persist_memory on the exits of both drivers."
)
TRUSTED = ["CPython ast parser", "json round-trips str/int/bool/list/dict/None", "cloudpickle pickles functions/classes of __main__ by value; plain pickle does not"]
DECLINED = [
    "equality of reloaded values (pickle round-trip semantics) and fresh-interpreter behaviour as such (needs execution)",
    "xarray content of load_xarray_dataset (C19)", "zarr stores (not importable in this sandbox)",
]

PATH_HELPERS = {
    f"{RI}._input_path", f"{RI}._defaults_path", f"{RI}._output_path", f"{RI}._maybe_array_path", f"{RI}.RunInfo.path",
    "pipefunc.map._storage_array._dict.DictArray._path", "pipefunc.map._storage_array._file.FileArray._index_to_file",
}
PATH_EXEMPT = {  # builders of paths that are not result files of a run folder: reason
    "pipefunc.map.adaptive.LearnersDict.to_slurm_run": "adaptive_scheduler's own folder",
    "pipefunc.map.adaptive.create_learners_from_sweep": "one run folder per sweep entry (a folder name, not a result file)",
}
SANITIZERS = {"dict", "list", "tuple", "set", "copy.copy", "copy.deepcopy"}


def _keys_subscripted(fn_node: ast.AST, var: str, ctxs=(ast.Store, ast.Del, ast.Load)) -> list[tuple[str, ast.Subscript]]:
    out = []
    for n in ast.walk(fn_node):
        if isinstance(n, ast.Subscript) and isinstance(n.value, ast.Name) and n.value.id == var and isinstance(n.slice, ast.Constant) and isinstance(n.ctx, ctxs):
            out.append((n.slice.value, n))
    return out


def check(ctx: Ctx) -> None:  # noqa: C901, PLR0912, PLR0915
    P, cg, eff = ctx.prog, ctx.cg, ctx.effects
    ri = P.cls(f"{RI}.RunInfo")
    fields = set(ri.fields)
    dump, load = ri.methods["dump"], ri.methods["load"]

    # ------------------------------------------------------------ 1 table
    base = [s for s in walk_no_nested(dump.node) if isinstance(s, ast.Assign) and norm(s.targets[0]) == "data" and norm(s.value) == "asdict(self)"]
    if not base:
        raise AnalysisError("RunInfo.dump: `data = asdict(self)` not found")
    deleted = {k for k, n in _keys_subscripted(dump.node, "data", (ast.Del,))}
    stored = {k for k, n in _keys_subscripted(dump.node, "data", (ast.Store,))}
    written = (fields - deleted) | stored
    popped = {c.args[0].value for c in ast.walk(load.node) if isinstance(c, ast.Call) and norm(c.func) == "data.pop" and c.args and isinstance(c.args[0], ast.Constant)}
    stored_l = {k for k, n in _keys_subscripted(load.node, "data", (ast.Store,))}
    read_l = {k for k, n in _keys_subscripted(load.node, "data", (ast.Load,))} | popped
    # replay stores and pops of load() in source order on the written key set
    events = [(n.lineno, n.col_offset, "store", k) for k, n in _keys_subscripted(load.node, "data", (ast.Store,))]
    events += [(c.lineno, c.col_offset + 10_000, "pop", c.args[0].value) for c in ast.walk(load.node)
               if isinstance(c, ast.Call) and norm(c.func) == "data.pop" and c.args and isinstance(c.args[0], ast.Constant)]
    after = set(written)
    for _l, _c, kind, k in sorted(events):
        if kind == "store":
            after.add(k)
        else:
            after.discard(k)
    ok = after == fields
    ctx.add("1-table", load, load.node, ok, f"keys written {sorted(written)} are turned back into exactly the dataclass fields" if ok else
            f"writer/reader disagree: written={sorted(written)}, popped={sorted(popped)}, added on load={sorted(stored_l)} -> {sorted(after)} but the fields are {sorted(fields)}", key="keyset")
    unknown = read_l - written
    ctx.add("1-table", load, load.node, not unknown, "load only reads keys that dump writes" if not unknown else f"load reads keys that dump never writes: {sorted(unknown)}", key="reads-written")
    ctor = [c for c in ast.walk(load.node) if isinstance(c, ast.Call) and norm(c.func) == "cls"]
    ok = bool(ctor) and any(k.arg is None and norm(k.value) == "data" for k in ctor[0].keywords)
    ctx.add("1-table", load, ctor[0] if ctor else load.node, ok, "the decoded mapping is passed whole to the constructor" if ok else "load no longer builds cls(**data)", key="ctor")
    # tuple-key encoding
    enc = set()
    for s in walk_no_nested(dump.node):
        if isinstance(s, ast.Assign) and norm(s.targets[0]) == "dicts_with_tuples" and isinstance(s.value, ast.List):
            enc |= {e.value for e in s.value.elts if isinstance(e, ast.Constant)}
        if isinstance(s, ast.Expr) and isinstance(s.value, ast.Call) and norm(s.value.func) == "dicts_with_tuples.append":
            enc.add(s.value.args[0].value)  # type: ignore[union-attr]
    enc_loop = [lp for lp in walk_no_nested(dump.node) if isinstance(lp, ast.For) and norm(lp.iter) == "dicts_with_tuples" and "_maybe_tuple_to_str(k)" in norm(lp)]
    dec = set()
    for lp in walk_no_nested(load.node):
        if isinstance(lp, ast.For) and isinstance(lp.iter, ast.List) and "_maybe_str_to_tuple(k)" in norm(lp):
            dec |= {e.value for e in lp.iter.elts if isinstance(e, ast.Constant)}
        if isinstance(lp, ast.If) and "_maybe_str_to_tuple(k)" in norm(lp):
            for k, _n in _keys_subscripted(lp, "data", (ast.Store,)):
                dec.add(k)
    ok = bool(enc_loop) and enc == dec and {"shapes", "shape_masks"} <= enc
    ctx.add("1-table", dump, enc_loop[0] if enc_loop else dump.node, ok, f"tuple keys encoded and decoded for the same fields {sorted(enc)}" if ok else f"tuple keys are encoded for {sorted(enc)} but decoded for {sorted(dec)}", key="tuple-keys")
    t2s, s2t = P.func(f"{RI}._maybe_tuple_to_str"), P.func(f"{RI}._maybe_str_to_tuple")
    seps_w = {c.value for c in ast.walk(t2s.node) if isinstance(c, ast.Constant) and isinstance(c.value, str)}
    seps_r = {c.value for c in ast.walk(s2t.node) if isinstance(c, ast.Constant) and isinstance(c.value, str)}
    ok = seps_w == seps_r == {","} and ".join(x)" in norm(t2s.node) and "x.split(" in norm(s2t.node)
    ctx.add("1-table", t2s, t2s.node, ok, "same separator for joining and splitting tuple keys" if ok else f"separator mismatch: written with {seps_w}, read with {seps_r}", key="separator")
    decode = {"all_output_names": "set(", "run_folder": "Path(", "shapes": "tuple(v)", "shape_masks": "tuple(v)", "internal_shapes": "tuple(v)"}
    for f_, marker in decode.items():
        hit = any(k == f_ and marker in norm(n_parent) for k, n in _keys_subscripted(load.node, "data", (ast.Store,)) for n_parent in [s for s in ast.walk(load.node) if isinstance(s, ast.Assign) and any(n is t for t in s.targets)]) \
            or any(isinstance(lp, ast.For) and isinstance(lp.iter, ast.List) and f_ in {e.value for e in lp.iter.elts if isinstance(e, ast.Constant)} and marker in norm(lp) for lp in walk_no_nested(load.node))
        ctx.add("1-table", load, load.node, hit, f"`{f_}` is decoded back with {marker}...)" if hit else f"`{f_}` comes back from JSON with another type (no {marker}...) step): the reloaded RunInfo differs from the recorded one", key=f"decode {f_}")
    ok = "sorted(data['all_output_names'])" in norm(dump.node) and "str(data['run_folder'])" in norm(dump.node)
    ctx.add("1-table", dump, dump.node, ok, "set / Path fields are made JSON-serialisable" if ok else "dump no longer converts the set / Path fields", key="encode-nonjson")
    for k, expr in (("inputs", "load(Path(v))"), ("defaults", "load(Path(data.pop('defaults_path')))")):
        ok = any(kk == k and expr in norm(s) for s in ast.walk(load.node) if isinstance(s, ast.Assign) for kk, _n in _keys_subscripted(s, "data", (ast.Store,)))
        ctx.add("1-table", load, load.node, ok, f"`{k}` are read back from the recorded paths" if ok else f"`{k}` are not reloaded from the recorded path(s)", key=f"reload {k}")
    ip = ri.methods["input_paths"]
    ok = "_input_path(k, self.run_folder) for k in self.inputs" in norm(ip.node)
    ctx.add("1-table", ip, ip.node, ok, "one recorded path per input" if ok else "input_paths no longer lists every input", key="input-paths")

    # ------------------------------------------------------------ 2 paths
    n_paths = 0
    for mod in ("pipefunc.map._run", "pipefunc.map._run_info", "pipefunc.map._load", "pipefunc.map._prepare", "pipefunc.map.adaptive",
                "pipefunc.map._storage_array._file", "pipefunc.map._storage_array._dict", "pipefunc.map._storage_array._base", "pipefunc.map.xarray"):
        for fn in P.functions_in(mod):
            for b in [b for b in walk_no_nested(fn.node) if isinstance(b, ast.BinOp) and isinstance(b.op, ast.Div)]:
                if not any(isinstance(x, (ast.Constant, ast.JoinedStr)) and (not isinstance(x, ast.Constant) or isinstance(x.value, str)) for x in (b.left, b.right)) and "format(" not in norm(b.right):
                    continue
                n_paths += 1
                ok = fn.qualname in PATH_HELPERS or fn.qualname in PATH_EXEMPT
                ctx.add("2-paths", fn, b, ok, "path built by a path helper" if ok else f"`{norm(b)[:70]}` builds a run-folder path by hand: writer and reader can drift apart", key=f"path in {fn.name}: {norm(b)[:50]}")
    ctx.floor("2-paths", n_paths, 6)
    users = {"_input_path": {f"{RI}.RunInfo._write", f"{RI}.RunInfo.input_paths"}, "_defaults_path": {f"{RI}.RunInfo._write", f"{RI}.RunInfo.defaults_path"},
             "_output_path": {f"{RI}.RunInfo.init_store"}, "_maybe_array_path": {f"{RI}._init_arrays"}}
    for h, want in users.items():
        got = {s.caller.qualname for s in cg.call_sites_of(f"{RI}.{h}")}
        ok = want <= got
        ctx.add("2-paths", f"{RI}.{h}", P.func(f"{RI}.{h}").loc, ok, f"writer and reader both use {h}" if ok else f"{h} is no longer used by {sorted(want - got)}", key=f"users {h}")
    wr = ri.methods["_write"]
    ok = "dump(value, input_path)" in norm(wr.node) and "for input_name, value in self.inputs.items()" in norm(wr.node) and "dump(self.defaults, defaults_path)" in norm(wr.node)
    ctx.add("2-paths", wr, wr.node, ok, "every input and the defaults are written under their helper paths" if ok else "_write no longer stores every input / the defaults", key="write-all")

    # ------------------------------------------------------------ 3 process
    tainted = _proxy_fields(ctx)
    ctx.floor("3-process.tainted-classes", len(tainted), 1)
    n_sink = 0
    for cls_q, fields_t in tainted.items():
        for c in P.mro(cls_q):
            for m in c.methods.values():
                for call in [x for x in walk_no_nested(m.node) if isinstance(x, ast.Call) and dotted(x.func).rsplit(".", 1)[-1] in ("dump", "dumps")]:
                    if not call.args:
                        continue
                    arg = call.args[0]
                    bare = isinstance(arg, ast.Attribute) and isinstance(arg.value, ast.Name) and arg.value.id == "self" and arg.attr in fields_t
                    wrapped = isinstance(arg, ast.Call) and (dotted(arg.func) in SANITIZERS or (isinstance(arg.func, ast.Attribute) and arg.func.attr == "copy")) and any(
                        isinstance(a, ast.Attribute) and a.attr in fields_t for a in ast.walk(arg))
                    if not (bare or wrapped):
                        continue
                    n_sink += 1
                    ctx.add("3-process", m, call, wrapped, f"the proxy-backed field is copied into a plain container before pickling ({cls_q.rsplit('.', 1)[-1]})" if wrapped else
                            f"`{norm(call)[:60]}` pickles self.{arg.attr}, which is a multiprocessing manager proxy in {cls_q.rsplit('.', 1)[-1]}: the file can only be read while that manager process lives",  # type: ignore[union-attr]
                            key=f"sink {cls_q.rsplit('.', 1)[-1]}.{m.name}")
    ctx.floor("3-process.sinks", n_sink, 1)
    ud = P.func("pipefunc._utils.dump")
    ser = [dotted(c.func) for c in ast.walk(ud.node) if isinstance(c, ast.Call) and dotted(c.func).rsplit(".", 1)[-1] in ("dump", "dumps") and "." in dotted(c.func)]
    ok = ser == ["cloudpickle.dump"]
    ctx.add("3-process", ud, ud.node, ok, "values are serialised with cloudpickle only (objects of __main__ by value)" if ok else f"dump serialises with {ser}: objects defined in the writing script are stored by reference and cannot be loaded elsewhere", key="cloudpickle-only")
    ul = P.func("pipefunc._utils.load")
    ok = "cloudpickle.load(f)" in norm(ul.node) and "'rb'" in norm(ul.node)
    ctx.add("3-process", ul, ul.node, ok, "load reads with cloudpickle in binary mode" if ok else "load changed", key="load")

    # ------------------------------------------------------------ 4 rebuild
    lo = P.func("pipefunc.map._load.load_outputs")
    src = norm(lo.node)
    ok = "run_info = RunInfo.load(run_folder)" in src and "store = run_info.init_store()" in src and "_load_from_store(output_name, store).value" in src and "_maybe_load_array(o)" in src
    ctx.add("4-rebuild", lo, lo.node, ok, "load_outputs: RunInfo.load -> init_store -> _load_from_store -> to_array" if ok else "load_outputs no longer rebuilds the store from the recorded RunInfo", key="load-outputs")
    lx = P.func("pipefunc.map._load.load_xarray_dataset")
    ok = "run_info = RunInfo.load(run_folder)" in norm(lx.node) and "run_info.mapspecs" in norm(lx.node) and "run_info.inputs" in norm(lx.node)
    ctx.add("4-rebuild", lx, lx.node, ok, "load_xarray_dataset reads mapspecs and inputs from the recorded RunInfo" if ok else "load_xarray_dataset no longer goes through RunInfo.load", key="load-xarray")
    ist = ri.methods["init_store"]
    src = norm(ist.node)
    ok = "shape = self.shapes[output_name]" in src and "mask = self.shape_masks[output_name]" in src and "_init_arrays(output_name, shape, mask, self.storage_class(output_name), self.run_folder)" in src
    ctx.add("4-rebuild", ist, ist.node, ok, "arrays are rebuilt from the recorded shape, mask, storage class and folder" if ok else "init_store no longer derives the arrays from the recorded shapes/masks/storage", key="init-store")
    ok = "for output_name in self.all_output_names" in src and "_output_path(output_name, self.run_folder)" in src and "if mapspec.inputs" in src
    ctx.add("4-rebuild", ist, ist.node, ok, "every other output gets its file path (or a DirectValue without folder)" if ok else "outputs without MapSpec are not given their file path", key="init-store-paths")
    ia = P.func(f"{RI}._init_arrays")
    src = norm(ia.node)
    ok = "external_shape = external_shape_from_mask(shape, mask)" in src and "internal_shape = internal_shape_from_mask(shape, mask)" in src and "storage_class(path, external_shape, internal_shape, mask) for path in paths" in src
    ctx.add("4-rebuild", ia, ia.node, ok, "constructor called as (path, external shape, internal shape, mask)" if ok else "_init_arrays passes the shapes/mask in another order or from other sources", key="ctor-args")
    base_init = P.func("pipefunc.map._storage_array._base.StorageBase.__init__")
    sig = [a for a in base_init.param_names() if a != "self"]
    ok = sig == ["folder", "shape", "internal_shape", "shape_mask"]
    ctx.add("4-rebuild", base_init, base_init.node, ok, "storage constructors take (folder, shape, internal_shape, shape_mask)" if ok else f"StorageBase.__init__ signature is {sig}", key="ctor-sig")
    for sub in P.subclasses("pipefunc.map._storage_array._base.StorageBase"):
        m = sub.methods.get("__init__")
        if m is None or "zarr" in sub.module.name:
            continue
        sig = [a for a in m.param_names() if a != "self"][:4]
        ok = sig == ["folder", "shape", "internal_shape", "shape_mask"]
        ctx.add("4-rebuild", m, m.node, ok, f"{sub.name} keeps the positional constructor order" if ok else f"{sub.name}.__init__ takes {sig}: _init_arrays passes (path, external, internal, mask) positionally", key=f"ctor-sig {sub.name}")
    sc = ri.methods["storage_class"]
    ok = "self.storage.get(output_name, default)" in norm(sc.node) and "self.storage.get('')" in norm(sc.node) and "get_storage_class(self.storage)" in norm(sc.node)
    ctx.add("4-rebuild", sc, sc.node, ok, "per-output storage: own entry, else the '' default, else error" if ok else "storage_class lookup order changed", key="storage-class")

    # ------------------------------------------------------------ 5 persist
    mp = "pipefunc.map._run._maybe_persist_memory"
    for q in ("pipefunc.map._run.run_map", "pipefunc.map._run.run_map_async._run_pipeline"):
        f = P.func(q)
        cfg = ctx.cfg(f)
        nodes = set(cfg.nodes(lambda s: isinstance(s, ast.Expr) and isinstance(s.value, ast.Call) and dotted(s.value.func) == "_maybe_persist_memory"))
        ok = bool(nodes) and cfg.must_pass(ENTRY, EXIT, nodes, normal_only=True)
        if ok:
            c = cfg.stmt[min(nodes)].value
            ok = [norm(a) for a in c.args] == ["store", "persist_memory"]
        ctx.add("5-persist", f, cfg.stmt[min(nodes)] if nodes else f.node, ok, "_maybe_persist_memory(store, persist_memory) is called synchronously before every normal return" if ok else
                "a normal exit of the driver does not pass a direct call of _maybe_persist_memory(store, persist_memory) (skipped, deferred or not awaited)", key="called")
        loops = cfg.nodes(lambda s: isinstance(s, ast.For) and "topological_generations" in norm(s.iter))
        ok = bool(nodes) and bool(loops) and all(lp not in cfg.reachable_from(n) for n in nodes for lp in loops)
        ctx.add("5-persist", f, f.node, ok, "persisting happens after the last generation" if ok else "memory storage is persisted before all generations ran", key="after-loop")
    pm = P.func(mp)
    src = norm(pm.node)
    body_if = [s for s in pm.node.body if isinstance(s, ast.If)]
    ok = len(body_if) == 1 and norm(body_if[0].test) == "persist_memory" and "for arr in store.values()" in src
    inner = [s for s in ast.walk(pm.node) if isinstance(s, ast.If) and s is not (body_if[0] if body_if else None)]
    ok = ok and len(inner) == 1 and norm(inner[0].test) == "isinstance(arr, StorageBase)" and norm(inner[0].body[0]) == "arr.persist()"
    ctx.add("5-persist", pm, pm.node, ok, "every StorageBase in the store is persisted (no filter by backend)" if ok else "_maybe_persist_memory skips some storages", key="persist-all")
    for sub in [P.cls("pipefunc.map._storage_array._base.StorageBase"), *P.subclasses("pipefunc.map._storage_array._base.StorageBase")]:
        if sub.name == "StorageBase" or "zarr" in sub.module.name:
            continue
        dmp = P.find_method(sub.qualname, "dump")
        per = P.find_method(sub.qualname, "persist")
        writes_on_dump = dmp is not None and eff.has(dmp.qualname, FS_WRITE)
        persists = per is not None and per.cls is not None and per.cls.name != "StorageBase" and eff.has(per.qualname, FS_WRITE)
        ok = writes_on_dump or persists
        ctx.add("5-persist", sub.qualname, sub.loc, ok, f"{sub.name}: {'dump writes files' if writes_on_dump else 'persist() writes the backing store'}" if ok else f"{sub.name} keeps results in memory and has no persist() that writes them", key=f"backend {sub.name}")
    dp = P.func("pipefunc.map._storage_array._dict.DictArray.persist")
    cfg = ctx.cfg(dp)
    w = set(cfg.nodes(lambda s: isinstance(s, ast.Expr) and isinstance(s.value, ast.Call) and dotted(s.value.func) == "dump"))
    early = [n for n in cfg.nodes(lambda s: isinstance(s, ast.If)) if norm(cfg.stmt[n].test) != "self.folder is None"]
    ok = bool(w) and not early
    ctx.add("5-persist", dp, dp.node, ok, "persist writes whenever there is a folder (no skip conditions)" if ok else f"DictArray.persist can skip writing under `{norm(cfg.stmt[early[0]].test)}`: state held by another process' copy is lost" if early else "DictArray.persist does not dump", key="dict-persist-unconditional")
    fa = P.func("pipefunc.map._storage_array._file.FileArray.to_array")
    masks = [s for s in walk_no_nested(fa.node) if isinstance(s, ast.Assign) and norm(s.targets[0]) == "mask"]
    ok = bool(masks) and all(norm(s.value) == "self.mask_linear()" for s in masks)
    none_masks = [c for c in ast.walk(fa.node) if isinstance(c, ast.Compare) and any(isinstance(o, (ast.Is, ast.IsNot)) for o in c.ops) and any(isinstance(x, ast.Constant) and x.value is None for x in c.comparators)
                  and "splat_internal" not in norm(c)]
    ok = ok and not none_masks
    ctx.add("5-persist", fa, masks[0] if masks else fa.node, ok, "FileArray.to_array masks by file presence" if ok else "FileArray.to_array derives the mask from the loaded values: a stored None reloads as missing", key="mask-from-files")


def _proxy_fields(ctx: Ctx) -> dict[str, set[str]]:
    """class -> instance fields that hold a multiprocessing manager proxy (through constructor forwarding)."""
    P = ctx.prog
    out: dict[str, set[str]] = {}
    for cls in P.classes.values():
        if not cls.module.name.startswith("pipefunc.map._storage_array") or "zarr" in cls.module.name:
            continue
        init = cls.methods.get("__init__")
        if init is None:
            continue
        managers = set()
        proxies = set()
        for s in walk_no_nested(init.node):
            if isinstance(s, ast.Assign) and isinstance(s.targets[0], ast.Name):
                v = norm(s.value)
                if v.endswith("Manager()"):
                    managers.add(s.targets[0].id)
                if isinstance(s.value, ast.Call) and isinstance(s.value.func, ast.Attribute) and s.value.func.attr in ("dict", "list", "Lock", "Namespace") and norm(s.value.func.value) in managers:
                    proxies.add(s.targets[0].id)
                if isinstance(s.targets[0], ast.Attribute):
                    pass
            if isinstance(s, ast.Assign) and isinstance(s.targets[0], ast.Attribute) and isinstance(s.value, ast.Name) and s.value.id in proxies and norm(s.targets[0].value) == "self":
                out.setdefault(cls.qualname, set()).add(s.targets[0].attr)
        # forwarded through super().__init__(..., kw=proxy)
        for c in [c for c in walk_no_nested(init.node) if isinstance(c, ast.Call) and norm(c.func) == "super().__init__"]:
            for k in c.keywords:
                if isinstance(k.value, ast.Name) and k.value.id in proxies and k.arg:
                    for b in P.mro(cls.qualname)[1:]:
                        bi = b.methods.get("__init__")
                        if bi is None:
                            continue
                        for s in walk_no_nested(bi.node):
                            if isinstance(s, (ast.Assign, ast.AnnAssign)):
                                tgt = s.targets[0] if isinstance(s, ast.Assign) else s.target
                                if isinstance(tgt, ast.Attribute) and norm(tgt.value) == "self" and s.value is not None and isinstance(s.value, ast.Name) and s.value.id == k.arg:
                                    out.setdefault(cls.qualname, set()).add(tgt.attr)
                        break
    return out


proxy_fields = _proxy_fields

RIF, R, D, U, FA, L = "pipefunc/map/_run_info.py", "pipefunc/map/_run.py", "pipefunc/map/_storage_array/_dict.py", "pipefunc/_utils.py", "pipefunc/map/_storage_array/_file.py", "pipefunc/map/_load.py"
MUTANTS = [
    Mutant("new-field-not-read", RIF, "        data[\"defaults_path\"] = str(self.defaults_path)\n", "        data[\"defaults_path\"] = str(self.defaults_path)\n        data[\"created\"] = \"now\"\n", ("C04.1-table",)),
    Mutant("masks-keys-not-decoded", RIF, "        for key in [\"shapes\", \"shape_masks\"]:\n            data[key] = {_maybe_str_to_tuple(k): tuple(v) for k, v in data[key].items()}\n",
           "        for key in [\"shapes\"]:\n            data[key] = {_maybe_str_to_tuple(k): tuple(v) for k, v in data[key].items()}\n", ("C04.1-table",)),
    Mutant("separator-mismatch", RIF, "        return \",\".join(x)\n", "        return \";\".join(x)\n", ("C04.1-table",)),
    Mutant("output-names-stay-list", RIF, "        data[\"all_output_names\"] = set(data[\"all_output_names\"])\n", "", ("C04.1-table",)),
    Mutant("hand-built-path-in-loader", L, "    outputs = [_load_from_store(output_name, store).value for output_name in output_names]\n", "    _probe = run_folder / \"outputs\" / f\"{output_names[0]}.cloudpickle\"\n    outputs = [_load_from_store(output_name, store).value for output_name in output_names]\n", ("C04.2-paths",)),
    Mutant("persist-proxy-F04", D, "        dump(dict(self._dict), path)  # `_dict` might be a manager proxy, which cannot be unpickled later\n", "        dump(self._dict, path)\n", ("C04.3-process",), why="original F04"),
    Mutant("pickle-first", U, "    with atomic_write(path, \"wb\") as f:\n        cloudpickle.dump(obj, f)\n", "    import pickle\n\n    with atomic_write(path, \"wb\") as f:\n        try:\n            f.write(pickle.dumps(obj))\n        except Exception:  # noqa: BLE001\n            cloudpickle.dump(obj, f)\n", ("C04.3-process",), why="seeded C04/3"),
    Mutant("init-arrays-swapped-shapes", RIF, "    return [storage_class(path, external_shape, internal_shape, mask) for path in paths]\n", "    return [storage_class(path, internal_shape, external_shape, mask) for path in paths]\n", ("C04.4-rebuild",)),
    Mutant("load-outputs-fresh-store", L, "    run_info = RunInfo.load(run_folder)\n    store = run_info.init_store()\n    outputs = [", "    run_info = RunInfo.load(run_folder)\n    store = {name: run_folder / \"outputs\" / name for name in output_names}\n    outputs = [", ("C04.4-rebuild", "C04.2-paths")),
    Mutant("persist-filter-backend", R, "            if isinstance(arr, StorageBase):\n                arr.persist()\n", "            if isinstance(arr, StorageBase) and not arr.dump_in_subprocess:\n                arr.persist()\n", ("C04.5-persist",), why="seeded C03/2"),
    Mutant("async-persist-not-awaited", R, "        _maybe_persist_memory(store, persist_memory)\n        return outputs\n\n    task = asyncio.create_task", "        asyncio.get_event_loop().run_in_executor(None, _maybe_persist_memory, store, persist_memory)\n        return outputs\n\n    task = asyncio.create_task", ("C04.5-persist",), why="seeded C03/3"),
    Mutant("sync-persist-dropped", R, "        progress.update_progress(force=True)\n    _maybe_persist_memory(store, persist_memory)\n    return outputs\n", "        progress.update_progress(force=True)\n    return outputs\n", ("C04.5-persist",)),
    Mutant("dict-persist-dirty-flag", D, "        path = self._path()\n        path.parent.mkdir(parents=True, exist_ok=True)\n", "        if not getattr(self, \"_dirty\", True):\n            return\n        path = self._path()\n        path.parent.mkdir(parents=True, exist_ok=True)\n", ("C04.5-persist",), why="seeded C04/2"),
    Mutant("filearray-mask-from-values", FA, "            mask = self.mask_linear()\n            return np.ma.MaskedArray(arr, mask=mask, dtype=object).reshape(self.shape)\n", "            mask = [x is None for x in items]\n            return np.ma.MaskedArray(arr, mask=mask, dtype=object).reshape(self.shape)\n", ("C04.5-persist",), why="seeded C04/1"),
    Mutant("twin-dump-json-indent", RIF, "            json.dump(data, f, indent=4)\n", "            json.dump(data, f, indent=2)\n", twin=True),
    Mutant("twin-load-comment", L, "    store = run_info.init_store()\n    outputs = [", "    store = run_info.init_store()  # same objects as during the run\n    outputs = [", twin=True),
]
