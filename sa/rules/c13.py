"""C13 - user-function failures surface unchanged, attributed and reproducible (structural clauses).

  1 wrapped     every call of a PipeFunc on a run/map/learner path is inside `try ... except Exception as e:
                handle_error(e, <same func>, <same kwargs>)`
  2 noreturn    handle_error has no normal exit, re-raises the same exception (or the same type, chained) and
                builds its note from the function name and the kwargs
  3 no-swallow  no broad handler (bare / Exception / BaseException / contextlib.suppress of those) whose protected
                region can reach a user call has a normal exit; the generation loops contain no handler
  4 snapshot    PipeFunc.__call__ records ErrorSnapshot(self.func, e, args, kwargs) with the very objects used for the
                call and re-raises; reproduce() replays them; save/load are a cloudpickle pair; Pipeline exposes it
  5 pool        the default process pool is created in a `with` (always shut down)
  7 iterator    no user-reaching call is driven by map()/filter()/generator expressions (StopIteration would be swallowed / converted)
  6 release     a context manager that starts a thread in __enter__ signals/joins it on every path through __exit__
"""

from __future__ import annotations

import ast
import copy
import re

from ..cfg import ENTRY, EXIT
from ..effects import USER_CALL
from ..flow import Defs, Scope, guard_facts
from ..loader import AnalysisError, FuncInfo, dotted, norm, walk_no_nested
from ..report import Ctx
from ..selftest import Mutant

PROP = "C13"
TECHNIQUE = "static analysis: handler analysis of every user-call site (try/except, handle_error arguments) + noreturn CFG of handle_error + broad-handler swallow analysis via effects + snapshot def-use + handler-cannot-raise rule + thread release on every __exit__ path (must-pass) + exception coverage of environment calls in snapshot default factories + iterator-protocol rule (user-reaching callables resolved through parameters, partials and record fields) + narrow-handler rule around user-reaching calls + future discrimination by class + nothing catches Future.result() + executor results consumed + by-value snapshot serialiser + unabridged kwargs rendering + copy-on-getstate + caught exception left untouched + subclass attribute parity for error_snapshot + ExitStack-managed pools + higher-order user-call effect (a callable parameter that call sites bind to a function running user code)"
EXPLANATION = (
    "Static analysis over the resolved call graph: all call sites of PipeFunc.__call__ in the execution modules are "
    "located and their enclosing try/except shape and argument identity are checked; handle_error's CFG is checked to "
    "have no normal exit; every broad exception handler in the package whose protected region can reach a user call "
    "(effect summary USER_CALL) must re-raise on all paths; ErrorSnapshot capture/replay is checked by def-use."
)
TRUSTED = ["CPython ast parser", "call resolution through parameter annotations (func: PipeFunc)", "concurrent.futures re-raises worker exceptions from Future.result()"]
DECLINED = [
    "that the exception keeps its message across a process pool (pickling of exceptions)",
    "absence of hangs under real executors",
    "loadability of earlier results after a failure (that is C05's atomic publication)",
]

CALL = "pipefunc._pipefunc.PipeFunc.__call__"
EXEC_MODULES = ("pipefunc._pipeline._base", "pipefunc.map._run", "pipefunc.map.adaptive", "pipefunc.map._prepare", "pipefunc.map._run_info")
BROAD = {"", "Exception", "BaseException"}


def _parents(root: ast.AST) -> dict[int, ast.AST]:
    return {id(c): p for p in ast.walk(root) for c in ast.iter_child_nodes(p)}


def _enclosing_try(node: ast.AST, par: dict[int, ast.AST]) -> ast.Try | None:
    x = node
    while id(x) in par:
        child, x = x, par[id(x)]
        if isinstance(x, ast.Try) and any(child is s or any(child is d for d in ast.walk(s)) for s in x.body):
            return x
    return None


def _handler_types(h: ast.ExceptHandler) -> set[str]:
    if h.type is None:
        return {""}
    if isinstance(h.type, ast.Tuple):
        return {dotted(e) for e in h.type.elts}
    return {dotted(h.type)}


def rule_wrapped(ctx: Ctx) -> None:  # noqa: C901
    P, cg = ctx.prog, ctx.cg
    sites = [s for s in cg.call_sites_of(CALL) if s.kind == "call" and s.caller.module.name in EXEC_MODULES]
    ctx.floor("1-wrapped", len(sites), 3)
    for s in sites:
        fn = s.caller
        root = fn.node
        par = _parents(root)
        tr = _enclosing_try(s.node, par)
        callee_name = norm(s.node.func)
        star = [k.value for k in s.node.keywords if k.arg is None]
        kw_name = norm(star[0]) if star else None
        ok, why = False, "the user call is not inside a try/except"
        if tr is not None:
            hs = [h for h in tr.handlers if _handler_types(h) & {"Exception", "BaseException", ""}]
            why = "no `except Exception` handler around the user call"
            if hs:
                h = hs[0]
                calls = [c for st in h.body for c in ast.walk(st) if isinstance(c, ast.Call) and dotted(c.func).rsplit(".", 1)[-1] == "handle_error"]
                why = "the handler does not call handle_error"
                if calls and h.name:
                    dd = Defs(fn)
                    args = [norm(dd.resolve(a)) for a in calls[0].args]
                    if len(args) >= 3 and args[0] == h.name and args[1] == norm(dd.resolve(s.node.func)) and args[2] == (norm(dd.resolve(star[0])) if star else None):
                        ok = True
                        why = "handle_error(e, func, kwargs) with the called function and the splatted kwargs"
                    else:
                        why = f"handle_error{tuple(args)} is not (caught exception, `{callee_name}`, `{kw_name}`): the error would be attributed to other arguments"
        ctx.add("1-wrapped", fn, s.node, ok, why, key=f"user-call {callee_name}(**{kw_name})")



def rule_noreturn(ctx: Ctx) -> None:
    P = ctx.prog
    he = P.func("pipefunc._utils.handle_error")
    cfg = ctx.cfg(he)
    # analysed without treating handle_error itself as noreturn
    from ..cfg import CFG

    cfg = CFG(he.node)
    ok = EXIT not in cfg.reachable_from(ENTRY)
    ctx.add("2-noreturn", he, he.node, ok, "every path through handle_error raises" if ok else "handle_error can return normally: the caller falls through with no result", key="no-normal-exit")
    raises = [r for r in walk_no_nested(he.node) if isinstance(r, ast.Raise)]
    exc_param = he.param_names()[0]
    dh = Defs(he)
    good, other = True, []
    for r in raises:
        if r.exc is None:
            continue
        t = norm(dh.resolve(r.exc))
        same = t.startswith((f"type({exc_param})(", f"{exc_param}.__class__(")) or t == exc_param
        good &= same
        if not same and re.match(r"[A-Z]\w*(Error|Exception)\(", t):
            other.append(t)
    ctx.tri("2-noreturn", he, raises[0] if raises else he.node, bool(raises) and good, bool(other), "re-raises the same exception, or the same type chained from it",
            f"handle_error raises `{other[0][:50] if other else ''}`: callers catching the original exception type no longer see it", "raised exception not recognised", key="same-type")
    note = [c for c in ast.walk(he.node) if isinstance(c, ast.Call) and isinstance(c.func, ast.Attribute) and c.func.attr == "add_note"]
    bare = [r for r in raises if r.exc is None or norm(dh.resolve(r.exc)) == exc_param]
    ok = bool(note) and norm(dh.resolve(note[0].func.value)) == exc_param  # type: ignore[union-attr]
    ctx.tri("2-noreturn", he, note[0] if note else he.node, ok and bool(bare), bool(bare) and not note, "the note is attached to the caught exception",
            "the exception is re-raised without a note naming the failing call", "note / re-raise not recognised", key="add-note")
    if note and bare:
        nn = {cfg.node_containing(note[0])} - {None}
        rn = cfg.node(bare[-1])
        ok = bool(nn) and cfg.must_pass(ENTRY, rn, nn)
        ctx.add("2-noreturn", he, note[0], ok, "the note is added on every path to the re-raise" if ok else
                "the note is added only conditionally: some failing invocations surface without (or with another invocation's) function name and kwargs", key="note-unconditional")
    # the keyword arguments are rendered in full: an abbreviating renderer (reprlib, textwrap.shorten, a slice of the text) makes
    # different failing invocations indistinguishable (a reduction over 25 elements, a long string, ...)
    sc_he = Scope(ctx, he)
    abbrev = [n_ for _f, n_ in sc_he.walk() if (isinstance(n_, (ast.Name, ast.Attribute)) and dotted(n_).split(".")[0] in ("reprlib", "textwrap", "pprint") and dotted(n_) not in ("pprint.pformat", "pprint"))
              or (isinstance(n_, ast.Call) and isinstance(n_.func, ast.Attribute) and n_.func.attr in ("shorten",))]
    # (module-level renderer objects built from reprlib count as well)
    for _f, n_ in sc_he.walk():
        if isinstance(n_, ast.Name) and n_.id in he.module.assigns and any(dotted(x).startswith("reprlib") for x in ast.walk(he.module.assigns[n_.id]) if isinstance(x, (ast.Name, ast.Attribute))):
            abbrev.append(n_)
        if isinstance(n_, ast.Call) and isinstance(n_.func, ast.Attribute) and isinstance(n_.func.value, ast.Name) and n_.func.value.id in he.module.assigns:
            init = he.module.assigns[n_.func.value.id]
            maker = ctx.cg.resolve_callable(he, init.func) if isinstance(init, ast.Call) else []
            if any(any(dotted(x).startswith("reprlib") for x in ast.walk(m_.node) if isinstance(x, (ast.Name, ast.Attribute))) for m_ in maker):
                abbrev.append(n_)
    sliced = [n_ for _f, n_ in sc_he.walk() if isinstance(n_, ast.Subscript) and isinstance(n_.slice, ast.Slice) and isinstance(n_.value, ast.Call) and dotted(n_.value.func) in ("repr", "str")]
    ctx.add("2-noreturn", he, (abbrev or sliced or [he.node])[0], not (abbrev or sliced), "the keyword arguments are rendered unabridged" if not (abbrev or sliced) else
            f"`{norm((abbrev or sliced)[0])[:50]}` abbreviates the rendered keyword arguments: the annotation no longer shows the arguments of the failing invocation (two different invocations of a reduction carry the same note)", key="kwargs-unabridged")
    rewrites = [a_ for a_ in walk_no_nested(he.node) if isinstance(a_, (ast.Assign, ast.AugAssign)) and any(isinstance(t, ast.Attribute) and t.attr in ("args", "msg", "message") and norm(t.value) == exc_param for t in (a_.targets if isinstance(a_, ast.Assign) else [a_.target]))]
    # (the legacy branch for Python <= 3.10 builds a NEW exception; an assignment to e.args on the modern path changes the message of the caught one)
    legacy = [a_ for a_ in rewrites if any("version_info" in t_ and p_ for t_, p_ in guard_facts(cfg, dh, cfg.node_containing(a_)))] if rewrites else []
    rewrites = [a_ for a_ in rewrites if a_ not in legacy]
    ctx.add("2-noreturn", he, rewrites[0] if rewrites else he.node, not rewrites, "the caught exception keeps its own args / message" if not rewrites else
            f"`{norm(rewrites[0])[:50]}` changes the message of the caught exception (for exceptions raised without arguments): what surfaces is no longer what the user function raised, and differs from what reproduce() raises", key="args-untouched")
    msg_src = " ".join(norm(s) for s in walk_no_nested(he.node) if isinstance(s, ast.Assign))
    unused = [p_ for p_ in he.param_names()[1:3] if not any(isinstance(x, ast.Name) and x.id == p_ and isinstance(x.ctx, ast.Load) for x in ast.walk(he.node))]
    ctx.tri("2-noreturn", he, he.node, "__name__" in msg_src and not unused, bool(unused), "message names the function and its keyword arguments",
            f"handle_error never reads its parameter(s) {unused}: the note cannot name the failing function / its arguments", "message construction not recognised", key="message")



def rule_no_swallow(ctx: Ctx) -> None:  # noqa: C901
    P, cg = ctx.prog, ctx.cg
    eff = ctx.effects
    n3 = 0
    for fn in P.functions.values():
        if fn.module.name.startswith(("pipefunc._widgets", "pipefunc._plotting")):
            continue
        for tr in [t for t in walk_no_nested(fn.node) if isinstance(t, ast.Try)]:
            broad = [h for h in tr.handlers if _handler_types(h) & BROAD]
            narrow = [h for h in tr.handlers if not (_handler_types(h) & BROAD)]
            if not broad and not narrow:
                continue
            reach = self_user = False
            for c in [c for st in tr.body for c in ast.walk(st) if isinstance(c, ast.Call)]:
                for callee in cg.resolve_callable(fn, c.func):
                    if eff.has(callee.qualname, USER_CALL):
                        reach = True
                if any(e == USER_CALL and n is c for e, n in eff.direct.get(fn.qualname, [])):
                    self_user = True
            if not (reach or self_user):
                continue
            n3 += 1
            cfg_f = ctx.cfg(fn)
            # a NARROW handler around code that runs user functions catches the user's exception of that very type as well: unless it
            # re-raises the caught exception unchanged, a user KeyError / AttributeError / TimeoutError surfaces as something else
            for h in narrow:
                rr = [r for r in ast.walk(h) if isinstance(r, ast.Raise)]
                same = bool(rr) and all(r.exc is None or (h.name and norm(r.exc) == h.name) for r in rr)
                hn_ = cfg_f.node(h)
                falls = EXIT in cfg_f.reachable_from(hn_, normal_only=True) or any(isinstance(cfg_f.stmt.get(x), (ast.Continue, ast.Return)) for x in cfg_f.reachable_from(hn_, normal_only=True))
                ok_ = same and not falls
                ctx.add("3-no-swallow", fn, h, ok_, f"`except {'/'.join(sorted(_handler_types(h)))}` around code that runs user functions re-raises the caught exception unchanged" if ok_ else
                        f"`except {'/'.join(sorted(_handler_types(h)))}` protects code that runs user functions and does not re-raise what it caught: a user function raising that very type is taken for the "
                        "library's own condition - the caller sees another exception (or none), without attribution", key=f"narrow except {'/'.join(sorted(_handler_types(h)))} in {fn.name}")
            for h in broad:
                hn = cfg_f.node(h)
                normal = EXIT in cfg_f.reachable_from(hn, normal_only=True) or any(
                    cfg_f.kind[x] not in ("raise", "except") and any(cfg_f.g.edges[x, y].get("exceptional") is None and y == EXIT for y in cfg_f.g.successors(x))
                    for x in cfg_f.reachable_from(hn, normal_only=True))
                ctx.add("3-no-swallow", fn, h, not normal,
                        "broad handler re-raises on every path" if not normal else "a broad `except` around code that runs user functions can complete normally: the failure is swallowed",
                        key=f"except {'/'.join(sorted(_handler_types(h))) or 'bare'}")
        for w in [w for w in walk_no_nested(fn.node) if isinstance(w, (ast.With, ast.AsyncWith))]:
            for item in w.items:
                c = item.context_expr
                if isinstance(c, ast.Call) and dotted(c.func).rsplit(".", 1)[-1] == "suppress" and {dotted(a) for a in c.args} & {"Exception", "BaseException"}:
                    reach = any(eff.has(cal.qualname, USER_CALL) for x in ast.walk(w) if isinstance(x, ast.Call) for cal in cg.resolve_callable(fn, x.func))
                    if reach:
                        n3 += 1
                        ctx.add("3-no-swallow", fn, w, False, "contextlib.suppress(Exception) around code that runs user functions", key="suppress")
    ctx.floor("3-no-swallow", n3, 3)
    # the result of Executor.map / submit carries the exception of the task: a call whose value is discarded drops it
    dropped = []
    for fn in P.functions.values():
        if not fn.module.name.startswith(("pipefunc.map", "pipefunc._pipeline", "pipefunc._utils")):
            continue
        for st in walk_no_nested(fn.node):
            if isinstance(st, ast.Expr) and isinstance(st.value, ast.Call) and isinstance(st.value.func, ast.Attribute) and st.value.func.attr in ("map", "submit") \
                    and re.search(r"(^|_)(ex|executor|pool|tex|tpe)$|executor", norm(st.value.func.value).rsplit(".", 1)[-1], flags=re.I):
                dropped.append((fn, st))
    ctx.add("3-no-swallow", dropped[0][0] if dropped else "pipefunc.map", dropped[0][1] if dropped else "", not dropped, "no result of Executor.map / submit is discarded" if not dropped else
            f"`{norm(dropped[0][1])[:60]}` discards what the executor returns: an exception raised inside the submitted work is never re-raised - the step looks done although it failed (nothing written, nothing reported)", key="executor-results-consumed")
    for q in ("pipefunc.map._run.run_map", "pipefunc.map._run.run_map_async._run_pipeline"):
        f = P.func(q)
        loops = [lp for lp in walk_no_nested(f.node) if isinstance(lp, ast.For) and "topological_generations" in norm(lp.iter)]
        if not loops:
            raise AnalysisError(f"{q}: generation loop not found")
        lp = loops[0]
        bad = [x for x in ast.walk(lp) if isinstance(x, (ast.Try, ast.Continue, ast.Break))]
        inside_try = _enclosing_try(lp, _parents(f.node)) is not None
        ctx.add("3-no-swallow", f, lp, not bad and not inside_try, "generation loop has no handler / continue: a failure ends the run before the next generation" if not bad and not inside_try else
                "the generation loop can continue after a failed generation", key="generation-loop")
    res = P.func("pipefunc.map._run._result")
    # whether `x` is a pending task is decided by its CLASS; `hasattr(x, "result")` / "try x.result() except AttributeError" look at an
    # arbitrary user value (sequential execution hands the function's own output through _result)
    duck = [c for c in ast.walk(res.node) if isinstance(c, ast.Call) and dotted(c.func) in ("hasattr", "getattr", "callable")]
    inst = [c for c in ast.walk(res.node) if isinstance(c, ast.Call) and dotted(c.func) == "isinstance"]
    ctx.tri("3-no-swallow", res, (duck or inst or [res.node])[0], bool(inst) and not duck, bool(duck), "_result tells a pending task from a value by isinstance(x, Future)",
            f"`{norm(duck[0])[:40] if duck else ''}` decides by duck typing whether a value is a pending task: a user function returning an object with such an attribute gets `.result()` called on its OUTPUT in sequential runs only",
            "discrimination of futures not recognised", key="future-by-class")
    any_handler = [t for t in ast.walk(res.node) if isinstance(t, ast.Try) and any(isinstance(c, ast.Call) and isinstance(c.func, ast.Attribute) and c.func.attr == "result" for st in t.body for c in ast.walk(st))
                   and not all(any(isinstance(x, ast.Raise) and x.exc is None for x in ast.walk(h)) for h in t.handlers)]
    ctx.add("3-no-swallow", res, any_handler[0] if any_handler else res.node, not any_handler, "nothing catches what Future.result() re-raises" if not any_handler else
            f"`except {'/'.join(sorted(t_ for h in any_handler[0].handlers for t_ in _handler_types(h)))}` around Future.result(): result() re-raises the USER's exception, which may be of exactly that type "
            "(TimeoutError, AttributeError, ...) - it is then taken for the library's own condition (retry forever / 'not a future') instead of being re-raised", key="future-result-unguarded")
    guarded = [t for t in ast.walk(res.node) if isinstance(t, ast.Try) and any(_handler_types(h) & BROAD for h in t.handlers) and any(isinstance(c, ast.Call) and isinstance(c.func, ast.Attribute) and c.func.attr == "result" for st in t.body for c in ast.walk(st))
               and not all(any(isinstance(x, ast.Raise) for x in ast.walk(h)) for h in t.handlers)]
    ctx.tri("3-no-swallow", res, res.node, ".result()" in norm(res.node) and not guarded, bool(guarded), "Future.result() is called unguarded (re-raises in the parent)", "_result swallows exceptions of Future.result(): worker failures are lost", key="future-result")



def rule_snapshot(ctx: Ctx) -> None:
    P, eff = ctx.prog, ctx.effects
    call = P.func(CALL)
    user = [n for e, n in eff.direct.get(call.qualname, []) if e == USER_CALL]
    if not user:
        raise AnalysisError("PipeFunc.__call__: the wrapped user call `self.func(...)` was not found")
    uc = user[0]
    par = _parents(call.node)
    tr = _enclosing_try(uc, par)
    ok, why = False, "self.func(...) is not inside a try"
    if tr is not None and tr.handlers:
        h = tr.handlers[0]
        dc = Defs(call)
        snaps = [s for s in h.body if isinstance(s, ast.Assign) and norm(s.targets[0]) == "self.error_snapshot"]
        why = "the handler does not record self.error_snapshot"
        snap_val = dc.resolve(snaps[0].value) if snaps else None
        delegated = False
        if not snaps:
            # the recording may be delegated to a method called from the handler: substitute its parameters
            from ..flow import bind_args

            for site in ctx.cg.sites.get(call.qualname, []):
                if not any(x is site.node for st in h.body for x in ast.walk(st)):
                    continue
                for callee in site.callees:
                    inner = [s for s in walk_no_nested(callee.node) if isinstance(s, ast.Assign) and norm(s.targets[0]) == "self.error_snapshot"]
                    if inner and isinstance(Defs(callee).resolve(inner[0].value), ast.Call):
                        b = {k: norm(v) for k, v in bind_args(site.node, callee).items()}
                        v = copy.deepcopy(Defs(callee).resolve(inner[0].value))
                        for x in ast.walk(v):
                            if isinstance(x, ast.Name) and x.id in b:
                                x.id = b[x.id]
                        snaps, snap_val, delegated = inner, v, True
            unresolved = [c for st in h.body for c in ast.walk(st) if isinstance(c, ast.Call) and dotted(c.func) not in ("print",) and not any(s_.node is c and s_.callees for s_ in ctx.cg.sites.get(call.qualname, []))]
            if not snaps and unresolved:
                ctx.add("4-snapshot", call, uc, None, f"UNDECIDED: the handler calls `{norm(unresolved[0])[:50]}`, which could not be resolved: whether the snapshot is recorded is not decided", key="capture")
                return _snapshot_rest(ctx)
        if snaps and isinstance(snap_val, ast.Call):
            a = [norm(x) for x in snap_val.args]
            star_a = [norm(x.value) for x in uc.args if isinstance(x, ast.Starred)]
            star_k = [norm(k.value) for k in uc.keywords if k.arg is None]
            want = [norm(uc.func), h.name, star_a[0] if star_a else None, star_k[0] if star_k else None]
            ok = a == want and dotted(snap_val.func) == "ErrorSnapshot"
            why = "ErrorSnapshot(self.func, e, args, kwargs) holds exactly what the failing call received" if ok else f"ErrorSnapshot{tuple(a)} does not hold the callee/arguments of the failing call {tuple(want)}"
            last = h.body[-1]
            _ = delegated
            if ok and not (isinstance(last, ast.Raise) and (last.exc is None or norm(last.exc) == h.name)):
                ok, why = False, "the handler in PipeFunc.__call__ does not end with a re-raise of the caught exception"
            if ok and not any(_handler_types(h) & BROAD):
                ok, why = False, "the handler in PipeFunc.__call__ does not catch Exception"
    ctx.add("4-snapshot", call, uc, ok, why, key="capture")
    # nothing in the handler can replace the user's exception before it is re-raised: warnings.warn raises under
    # `-W error` / filterwarnings=error (the caller then sees a Warning, and the snapshot line is never reached)
    if tr is not None and tr.handlers:
        risky = [c for st in tr.handlers[0].body for c in ast.walk(st) if isinstance(c, ast.Call) and dotted(c.func) in ("warnings.warn", "warn", "warnings.warn_explicit")]
        ctx.add("4-snapshot", call, risky[0] if risky else tr.handlers[0], not risky, "the handler only prints, records and re-raises" if not risky else
                f"`{norm(risky[0])[:50]}` in the failure handler raises when warnings are errors: the caller receives the Warning instead of the user function's exception and no snapshot is recorded", key="handler-cannot-raise")
    # ... nor can the construction of the snapshot itself: the default factories of its fields run inside the handler, and the ones
    # that ask the environment (sockets) fail on machines without a route / resolver - they must absorb every OSError themselves
    es_cls = P.cls("pipefunc._pipefunc.ErrorSnapshot")
    factories = []
    for st in es_cls.node.body:
        if isinstance(st, ast.AnnAssign) and isinstance(st.value, ast.Call):
            for k in st.value.keywords:
                if k.arg == "default_factory" and isinstance(k.value, ast.Name):
                    q = P.resolve_name(es_cls.module, k.value.id, None)
                    if q in P.functions:
                        factories.append(P.functions[q])
    n_env = 0
    for f_ in factories:
        par_f = _parents(f_.node)
        for c in ast.walk(f_.node):
            if not (isinstance(c, ast.Call) and (dotted(c.func).startswith("socket.") or (isinstance(c.func, ast.Attribute) and c.func.attr in ("connect", "getsockname", "bind", "gethostbyname")))):
                continue
            n_env += 1
            types: set[str] = set()
            x: ast.AST = c
            while id(x) in par_f:
                child, x = x, par_f[id(x)]
                if isinstance(x, ast.Try) and any(child is s_ or any(child is d_ for d_ in ast.walk(s_)) for s_ in x.body):
                    for h_ in x.handlers:
                        if not any(isinstance(r_, ast.Raise) for r_ in ast.walk(h_)):
                            types |= _handler_types(h_)
            covered = bool(types & (BROAD | {"OSError", "socket.error", "IOError", "EnvironmentError"}))
            ctx.tri("4-snapshot", f_, c, covered, not covered, f"`{norm(c)[:40]}` in {f_.name} (a default factory of ErrorSnapshot, run inside the failure handler) cannot raise out of it",
                    f"`{norm(c)[:40]}` in {f_.name} runs inside the failure handler (default factory of an ErrorSnapshot field) and only {sorted(types) or 'nothing'} is caught around it: on a machine without a network route it raises OSError, "
                    "which replaces the user function's exception and no snapshot is recorded", "", key=f"factory-cannot-raise {f_.name} {norm(c.func)[:30]}")
    if factories:
        ctx.floor("4-snapshot.factory-env-calls", n_env, 1)
    _snapshot_rest(ctx)


def _only_called_from_handlers(ctx: Ctx, fn_: FuncInfo, depth: int = 2) -> bool:
    sites = ctx.cg.call_sites_of(fn_.qualname)
    if not sites:
        return False
    for s_ in sites:
        par_ = _parents(s_.caller.node)
        x = s_.node
        inside = False
        while id(x) in par_:
            x = par_[id(x)]
            if isinstance(x, ast.ExceptHandler):
                inside = True
        if not inside and not (depth > 0 and _only_called_from_handlers(ctx, s_.caller, depth - 1)):
            return False
    return True


def _snapshot_rest(ctx: Ctx) -> None:
    P = ctx.prog
    call = P.func(CALL)
    # the snapshot is only ever written where a failure is handled (and initialised in constructors)
    writers = []
    for fn_ in P.functions.values():
        for s_ in walk_no_nested(fn_.node):
            tg = s_.targets if isinstance(s_, ast.Assign) else ([s_.target] if isinstance(s_, (ast.AnnAssign, ast.AugAssign)) else [])
            if any(isinstance(t, ast.Attribute) and t.attr == "error_snapshot" for t in tg):
                par_ = _parents(fn_.node)
                x = s_
                in_handler = False
                while id(x) in par_:
                    x = par_[id(x)]
                    if isinstance(x, ast.ExceptHandler):
                        in_handler = True
                if not in_handler and fn_.name not in ("__init__", "__setstate__", "__post_init__", "copy") and not _only_called_from_handlers(ctx, fn_):
                    writers.append((fn_, s_))
    ctx.add("4-snapshot", writers[0][0] if writers else call, writers[0][1] if writers else call.node, not writers, "error_snapshot is only written by the failure handler (and initialised in constructors)" if not writers else
            f"`{norm(writers[0][1])[:60]}` overwrites error_snapshot outside a failure handler: with concurrent calls (thread pool) a call that succeeds after the failing one erases the snapshot of the failure", key="snapshot-writers")
    # nothing rebinds args / kwargs between the call and the snapshot
    es = P.cls("pipefunc._pipefunc.ErrorSnapshot")
    rep = es.methods["reproduce"]
    dr = Defs(rep)
    rets = [norm(dr.resolve(r.value)) for r in walk_no_nested(rep.node) if isinstance(r, ast.Return) and r.value is not None]
    ctx.tri("4-snapshot", rep, rep.node, rets == ["self.function(*self.args, **self.kwargs)"], bool(rets) and "self.function(" in rets[-1] and rets != ["self.function(*self.args, **self.kwargs)"],
            "reproduce() replays the stored function on the stored arguments", f"reproduce() calls `{rets[-1][:60] if rets else ''}`, not function(*args, **kwargs) with the stored arguments", "reproduce() not recognised", key="reproduce")
    flds = list(es.fields)
    ok = flds[:4] == ["function", "exception", "args", "kwargs"]
    ctx.add("4-snapshot", es.qualname, es.loc, ok, "positional fields are (function, exception, args, kwargs)" if ok else f"ErrorSnapshot field order changed to {flds[:4]}: the capture site passes them positionally", key="field-order")
    sv, ld = es.methods["save_to_file"], es.methods["load_from_file"]
    wr = {dotted(c.func).split(".")[0] for c in ast.walk(sv.node) if isinstance(c, ast.Call) and dotted(c.func).endswith((".dump", ".dumps")) and "." in dotted(c.func)}
    rd = {dotted(c.func).split(".")[0] for c in ast.walk(ld.node) if isinstance(c, ast.Call) and dotted(c.func).endswith((".load", ".loads")) and "." in dotted(c.func)}
    ctx.tri("4-snapshot", sv, sv.node, bool(wr) and wr == rd, bool(wr) and bool(rd) and wr != rd, "save/load are a matching dump/load pair", f"save_to_file writes with {sorted(wr)} but load_from_file reads with {sorted(rd)}", "save/load not recognised", key="save-load")
    # the snapshot holds the caller's kwargs and the exception: lambdas / closures / classes of the user's script are only
    # serialised by value by cloudpickle (__getstate__ cloudpickles the function alone)
    by_ref = {m_ for m_ in wr | rd if es.module.aliases.get(m_, m_) in ("pickle", "_pickle", "marshal", "json", "dill") or m_ in ("pickle", "marshal", "json")}
    ctx.tri("4-snapshot", sv, sv.node, (wr | rd) == {"cloudpickle"}, bool(by_ref), "the snapshot file is written and read with cloudpickle (arguments and exception by value)",
            f"the snapshot file is written/read with {sorted(by_ref)}: an argument that only cloudpickle can serialise (a lambda, a closure) makes save_to_file raise, and an exception class defined in the user's script cannot be loaded in another interpreter - reproduce() after save/load is lost",
            "serialiser of the snapshot file not recognised", key="save-by-value")
    # ... from EVERY function of the pipeline: a NestedPipeFunc (its constructor does not chain to PipeFunc.__init__) must have the
    # attribute from the start, or the walk over the functions dies with AttributeError before it reaches the one that failed
    from ..flow import subclass_missing_attrs

    miss = subclass_missing_attrs(P, "pipefunc._pipefunc.PipeFunc", "pipefunc._pipefunc.NestedPipeFunc")
    reads = miss.get("error_snapshot", [])
    ctx.add("4-snapshot", reads[0][0] if reads else "pipefunc._pipefunc.NestedPipeFunc", reads[0][1] if reads else "", "error_snapshot" not in miss,
            "every kind of pipeline function has the error_snapshot attribute from construction on" if "error_snapshot" not in miss else
            f"`{norm(reads[0][1]) if reads else 'error_snapshot'}` is read from every function of the pipeline, but NestedPipeFunc.__init__ never creates `error_snapshot`: for a pipeline that contains a nested function "
            "Pipeline.error_snapshot raises AttributeError - before any failure, and after the failure of a function that is listed behind the nested one", key="nested-has-snapshot")
    # __getstate__ builds the pickled state in a COPY of the instance dict: `state = vars(self)` / `self.__dict__` is the live dict,
    # and `state["function"] = dumps(...)` then replaces the live function by bytes (reproduce() fails after the first save)
    for gs_ in [f_ for f_ in P.functions.values() if f_.name == "__getstate__" and f_.module.name.startswith("pipefunc")]:
        live = {t.id for a_ in walk_no_nested(gs_.node) if isinstance(a_, ast.Assign) and norm(a_.value) in ("vars(self)", "self.__dict__") for t in a_.targets if isinstance(t, ast.Name)}
        edits = [a_ for a_ in walk_no_nested(gs_.node) if (isinstance(a_, (ast.Assign, ast.AugAssign, ast.Delete)) and any(isinstance(t, ast.Subscript) and isinstance(t.value, ast.Name) and t.value.id in live for t in (a_.targets if not isinstance(a_, ast.AugAssign) else [a_.target])))
                 or (isinstance(a_, ast.Expr) and isinstance(a_.value, ast.Call) and isinstance(a_.value.func, ast.Attribute) and a_.value.func.attr in ("pop", "update", "setdefault", "clear") and isinstance(a_.value.func.value, ast.Name) and a_.value.func.value.id in live)]
        ctx.add("4-snapshot", gs_, edits[0] if edits else gs_.node, not edits, f"{gs_.qualname.rsplit('.', 2)[-2]}.__getstate__ edits a copy of the instance dict" if not edits else
                f"`{norm(edits[0])[:60]}` writes into the LIVE instance dict (`{sorted(live)[0]} = vars(self)` is not a copy): pickling the object changes it - after save_to_file (or any pickling, e.g. a process-pool map) "
                "the snapshot's function is a bytes blob and reproduce() raises TypeError", key=f"getstate-copies {gs_.qualname.rsplit('.', 2)[-2]}")
    pe = P.func("pipefunc._pipeline._base.Pipeline.error_snapshot")
    ctx.tri("4-snapshot", pe, pe.node, "self.functions" in norm(pe.node) and ".error_snapshot" in norm(pe.node), ".error_snapshot" not in norm(pe.node), "Pipeline.error_snapshot returns a function's snapshot",
            "Pipeline.error_snapshot no longer reads the functions' snapshots", key="pipeline-snapshot")



def rule_pool(ctx: Ctx) -> None:
    P = ctx.prog
    me = P.func("pipefunc.map._run._maybe_executor")
    withs = [w for w in walk_no_nested(me.node) if isinstance(w, ast.With) and any("ProcessPoolExecutor" in norm(i.context_expr) for i in w.items)]
    created = [c for c in ast.walk(me.node) if isinstance(c, ast.Call) and dotted(c.func).endswith("ProcessPoolExecutor")]
    # ... or entered into an ExitStack whose `with` encloses the yield: leaving the stack shuts the pool down just the same
    stacks = {i.optional_vars.id: w for w in walk_no_nested(me.node) if isinstance(w, ast.With) for i in w.items
              if isinstance(i.optional_vars, ast.Name) and dotted(i.context_expr.func if isinstance(i.context_expr, ast.Call) else i.context_expr).rsplit(".", 1)[-1] in ("ExitStack", "AsyncExitStack")}
    entered = [c for c in ast.walk(me.node) if isinstance(c, ast.Call) and isinstance(c.func, ast.Attribute) and c.func.attr == "enter_context" and isinstance(c.func.value, ast.Name) and c.func.value.id in stacks
               and c.args and any(x in created for x in ast.walk(c.args[0]))]
    managed_with = [w for w in withs if any(isinstance(y, ast.Yield) for y in ast.walk(w))]
    managed_stack = [c for c in entered if any(isinstance(y, ast.Yield) for y in ast.walk(stacks[c.func.value.id])) and any(x is c for x in ast.walk(stacks[c.func.value.id]))]
    closed_by_hand = any(isinstance(c, ast.Call) and isinstance(c.func, ast.Attribute) and c.func.attr == "shutdown" for t_ in ast.walk(me.node) if isinstance(t_, ast.Try) for f_ in t_.finalbody for c in ast.walk(f_))
    ok = len(created) == 1 and bool(managed_with or managed_stack)
    # a pool created in a helper that hands it back: the call of the helper stands for the pool
    if not created:
        for h_ in Scope(ctx, me).funcs[1:]:
            if any(isinstance(c, ast.Call) and dotted(c.func).endswith("ProcessPoolExecutor") for c in ast.walk(h_.node)):
                hcalls = [c for c in ast.walk(me.node) if isinstance(c, ast.Call) and dotted(c.func).rsplit(".", 1)[-1] == h_.name]
                in_with = [c for c in hcalls if any(isinstance(w, ast.With) and any(any(x is c for x in ast.walk(i.context_expr)) for i in w.items) for w in ast.walk(me.node))
                           or any(isinstance(e_, ast.Call) and isinstance(e_.func, ast.Attribute) and e_.func.attr == "enter_context" and any(x is c for x in ast.walk(e_)) for e_ in ast.walk(me.node))]
                created = hcalls
                if hcalls and len(in_with) == len(hcalls):
                    ok = True
                    managed_with = managed_with or [me.node]
    ctx.tri("5-pool", me, (withs or created or [me.node])[0], ok, bool(created) and not (managed_with or managed_stack) and not closed_by_hand and not entered and not withs,
            "the default pool lives inside a `with` (or an ExitStack) around the yield", "the default ProcessPoolExecutor is not created in a `with`: a failing run leaves the pool running",
            "how the default pool is shut down was not recognised", key="pool-with")
    for q in ("pipefunc.map._run.run_map", "pipefunc.map._run.run_map_async._run_pipeline"):
        f = P.func(q)
        w = [x for x in walk_no_nested(f.node) if isinstance(x, ast.With) and any("_maybe_executor" in norm(i.context_expr) for i in x.items)]
        # the executor handed out by the context manager is only used while the `with` is open
        names = {i.optional_vars.id for x in w for i in x.items if "_maybe_executor" in norm(i.context_expr) and isinstance(i.optional_vars, ast.Name)}
        inside = {id(n) for x in w for n in ast.walk(x)}
        uses = [n for n in ast.walk(f.node) if isinstance(n, ast.Name) and n.id in names and isinstance(n.ctx, ast.Load)]
        outside = [n for n in uses if id(n) not in inside]
        bare = [c for c in ast.walk(f.node) if isinstance(c, ast.Call) and dotted(c.func).endswith("_maybe_executor") and id(c) not in inside]
        ok = bool(w) and bool(names) and bool(uses) and not outside and not bare
        ctx.tri("5-pool", f, outside[0] if outside else (bare[0] if bare else (w[0] if w else f.node)), ok, bool(outside or bare), "the executor is only used inside `with _maybe_executor(...)`",
                f"the executor of `_maybe_executor` is used outside its `with` block (line {(outside or bare)[0].lineno}): the generations run after the pool was shut down, or the pool is never shut down" if (outside or bare) else "", "executor context manager not recognised", key="loop-in-with")


def rule_release(ctx: Ctx) -> None:
    """A context manager of the package that starts a thread in __enter__ stops it on EVERY path through __exit__ - also when an
    exception is passing (exc_type is not None).  A path that leaves __exit__ without signalling/joining the thread leaves a
    non-daemon thread running: a process-pool worker then never exits and the failing map() hangs in the pool shutdown instead
    of returning the user's exception."""
    P = ctx.prog
    n = 0
    for cls in P.classes.values():
        en, ex = cls.methods.get("__enter__"), cls.methods.get("__exit__")
        if en is None or ex is None:
            continue
        starts = [c for c in ast.walk(en.node) if isinstance(c, ast.Call) and isinstance(c.func, ast.Attribute) and c.func.attr == "start" and not c.args]
        threads = [c for c in ast.walk(en.node) if isinstance(c, ast.Call) and dotted(c.func).rsplit(".", 1)[-1] in ("Thread", "Timer", "Process")]
        if not starts or not threads:
            continue
        n += 1
        cfg = ctx.cfg(ex)
        stops = set(cfg.nodes(lambda s_: not isinstance(s_, (ast.If, ast.For, ast.While, ast.Try, ast.With)) and any(
            isinstance(c, ast.Call) and isinstance(c.func, ast.Attribute) and c.func.attr in ("set", "join", "cancel") and norm(c.func.value).startswith("self.") for c in ast.walk(s_))))
        if not stops:
            ctx.add("6-release", ex, ex.node, None, f"UNDECIDED: how {cls.name}.__exit__ stops the thread started in __enter__ (no self.<x>.set()/join()/cancel() statement)", key=f"release {cls.name}")
            continue
        ok = cfg.must_pass(ENTRY, EXIT, stops, normal_only=True)
        w = None if ok else cfg.witness_path(ENTRY, EXIT, stops)
        rets = [cfg.stmt[x] for x in (w or []) if isinstance(cfg.stmt.get(x), ast.Return)]
        ctx.add("6-release", ex, rets[0] if rets else ex.node, ok, f"every path through {cls.name}.__exit__ signals/joins the thread started in __enter__" if ok else
                f"{cls.name}.__exit__ can return without stopping the thread started in __enter__ ({'; '.join(cfg.describe(w, ex.module.relpath))[:160] if w else ''}): the measuring thread keeps the worker process alive, "
                "a failing parallel map hangs in the pool shutdown instead of raising the user's exception", key=f"release {cls.name}")
    ctx.floor("6-release", n, 1)


def rule_iterator_protocol(ctx: Ctx) -> None:
    """A call that can reach a user function is never driven by the iterator protocol.  `list(map(f, xs))` treats a StopIteration
    raised inside f as the end of the iteration (the map silently returns truncated results and later generations run); a
    generator expression turns it into RuntimeError (PEP 479).  Either way the user's exception does not surface unchanged.
    List / set / dict comprehensions and plain loops propagate it, so those are the accepted forms."""
    from ..flow import callable_targets

    P, eff = ctx.prog, ctx.effects
    n = 0
    for mn in ("pipefunc.map._run", "pipefunc.map.adaptive", "pipefunc._pipeline._base", "pipefunc.map._prepare"):
        for fn in P.functions_in(mn):
            shadow = {a.arg for a in ast.walk(fn.node) if isinstance(a, ast.arg)} | {t.id for x in ast.walk(fn.node) if isinstance(x, ast.Assign) for t in x.targets if isinstance(t, ast.Name)}
            for c in walk_no_nested(fn.node):
                drivers: list[tuple[ast.AST, ast.AST, str]] = []
                if isinstance(c, ast.Call) and isinstance(c.func, ast.Name) and c.func.id in ("map", "filter") and c.func.id not in shadow and c.args:
                    drivers.append((c, c.args[0], f"`{c.func.id}(...)`"))
                elif isinstance(c, ast.GeneratorExp):
                    for inner in ast.walk(c.elt):
                        if isinstance(inner, ast.Call):
                            drivers.append((c, inner.func, "a generator expression"))
                for node_, callee_expr, how in drivers:
                    tg = callable_targets(ctx, fn, callee_expr)
                    user = [t for t in tg if eff.has(t.qualname, USER_CALL)]
                    if not tg and isinstance(callee_expr, ast.Name) and callee_expr.id in fn.param_names() and how.startswith("`"):
                        n += 1
                        ctx.add("7-iterator", fn, node_, None, f"UNDECIDED: `{norm(node_)[:50]}` drives a callable parameter whose targets could not be resolved through the iterator protocol", key=f"iterator {fn.name} {norm(callee_expr)[:30]}")
                        continue
                    if not user:
                        continue
                    n += 1
                    ctx.add("7-iterator", fn, node_, False, f"`{norm(node_)[:60]}` drives {user[0].name} (which reaches a user function) through {how}: a StopIteration raised by the user function is taken for the end of the "
                            "iteration / converted to RuntimeError - the map returns truncated results or a different exception type instead of re-raising the user's exception", key=f"iterator {fn.name} {norm(callee_expr)[:30]}")
    ctx.add("7-iterator", "pipefunc.map._run", "", True, f"no user-reaching call is driven by map()/filter()/a generator expression in the execution modules ({n} candidate site(s) examined)", key="iterator-scan")


def check(ctx: Ctx) -> None:
    for rule in (rule_wrapped, rule_noreturn, rule_no_swallow, rule_snapshot, rule_pool, rule_release, rule_iterator_protocol):
        ctx.run(rule)


R, B, U, PF = "pipefunc/map/_run.py", "pipefunc/_pipeline/_base.py", "pipefunc/_utils.py", "pipefunc/_pipefunc.py"
MUTANTS = [
    Mutant("cache-typeerror-retries-user-function", "pipefunc/map/_run.py", "    result = compute_fn()\n    if isinstance(cache, HybridCache):\n        cache.put(cache_key, result, time.monotonic() - t)\n    else:\n        cache.put(cache_key, result)\n    return result\n",
           "    try:\n        result = compute_fn()\n    except TypeError:\n        return compute_fn()\n    if isinstance(cache, HybridCache):\n        cache.put(cache_key, result, time.monotonic() - t)\n    else:\n        cache.put(cache_key, result)\n    return result\n", ("C13.3-no-swallow",), why="round-8 seed C13/22"),
    Mutant("snapshot-stdlib-pickle", "pipefunc/_pipefunc.py", "            cloudpickle.dump(self, f)\n", "            import pickle\n\n            pickle.dump(self, f)\n", ("C13.4-snapshot",), why="round-6 seed C13/16"),
    Mutant("local-ip-catches-too-little", "pipefunc/_utils.py", "    except Exception:  # noqa: BLE001  # pragma: no cover\n        return \"unknown\"\n", "    except (socket.gaierror, socket.timeout):  # pragma: no cover\n        return \"unknown\"\n", ("C13.4-snapshot",), why="round-4 seed C13/12"),
    Mutant("success-clears-snapshot", PF, "            try:\n                result = self.func(*args, **kwargs)\n", "            self.error_snapshot = None\n            try:\n                result = self.func(*args, **kwargs)\n", ("C13.4-snapshot",), why="round-2 seed C13/5"),
    Mutant("map-call-bare", R, "    def compute_fn() -> Any:\n        try:\n            return func(**selected)\n        except Exception as e:\n            handle_error(e, func, selected)\n            # handle_error raises but mypy doesn't know that\n            raise  # pragma: no cover\n",
           "    def compute_fn() -> Any:\n        return func(**selected)\n", ("C13.1-wrapped",)),
    Mutant("single-wrong-kwargs", R, "            handle_error(e, func, kwargs)\n", "            handle_error(e, func, {})\n", ("C13.1-wrapped",)),
    Mutant("run-path-swallow", B, "    except Exception as e:\n        handle_error(e, func, func_args)\n        # handle_error raises but mypy doesn't know that\n        raise  # pragma: no cover\n",
           "    except Exception as e:\n        print(e)\n        return None\n", ("C13.1-wrapped", "C13.3-no-swallow")),
    Mutant("handle-error-returns", U, "    e.add_note(msg)\n    raise  # noqa: PLE0704\n", "    e.add_note(msg)\n", ("C13.2-noreturn",)),
    Mutant("handle-error-wraps-runtimeerror", U, "    e.add_note(msg)\n    raise  # noqa: PLE0704\n", "    raise RuntimeError(msg) from e\n", ("C13.2-noreturn",)),
    Mutant("handle-error-no-kwargs", U, "call_str = format_function_call(func.__name__, (), kwargs)", "call_str = format_function_call(func.__name__, (), {})", ("C13.2-noreturn",)),
    Mutant("note-only-once", U, "    e.add_note(msg)\n    raise  # noqa: PLE0704\n", "    if not getattr(e, \"__notes__\", ()):\n        e.add_note(msg)\n    raise  # noqa: PLE0704\n", ("C13.2-noreturn",), why="seeded C13/1"),
    Mutant("result-guarded", R, "    return x.result() if isinstance(x, Future) else x\n", "    try:\n        return x.result() if isinstance(x, Future) else x\n    except Exception:\n        return None\n", ("C13.3-no-swallow",)),
    Mutant("generation-loop-continues", R, "        for gen in pipeline.topological_generations.function_lists:\n            _run_and_process_generation(\n                generation=gen,\n                run_info=run_info,\n                store=store,\n                outputs=outputs,\n                fixed_indices=fixed_indices,\n                executor=ex,\n                progress=progress,\n                cache=pipeline.cache,\n            )\n",
           "        for gen in pipeline.topological_generations.function_lists:\n            try:\n                _run_and_process_generation(\n                    generation=gen,\n                    run_info=run_info,\n                    store=store,\n                    outputs=outputs,\n                    fixed_indices=fixed_indices,\n                    executor=ex,\n                    progress=progress,\n                    cache=pipeline.cache,\n                )\n            except KeyError:\n                continue\n", ("C13.3-no-swallow",)),
    Mutant("snapshot-renamed-kwargs", PF, "self.error_snapshot = ErrorSnapshot(self.func, e, args, kwargs)", "self.error_snapshot = ErrorSnapshot(self.func, e, args, dict(kwargs))", ("C13.4-snapshot",)),
    Mutant("snapshot-no-reraise", PF, "                self.error_snapshot = ErrorSnapshot(self.func, e, args, kwargs)\n                raise\n", "                self.error_snapshot = ErrorSnapshot(self.func, e, args, kwargs)\n                result = None\n", ("C13.4-snapshot", "C13.3-no-swallow")),
    Mutant("reproduce-kwargs-only", PF, "return self.function(*self.args, **self.kwargs)", "return self.function(**self.kwargs)", ("C13.4-snapshot",)),
    Mutant("pool-not-in-with", R, "        with ProcessPoolExecutor() as new_executor:  # shuts down the executor after use\n            yield {\"\": new_executor}\n", "        new_executor = ProcessPoolExecutor()\n        yield {\"\": new_executor}\n", ("C13.5-pool",)),
    Mutant("profiler-exit-early-on-error", "pipefunc/_profile.py", "        assert self.start_time is not None\n        self.stop_event.set()\n", "        assert self.start_time is not None\n        if exc_type is not None:\n            return\n        self.stop_event.set()\n", ("C13.6-release",), why="round-4 seed C13/11"),
    Mutant("element-loop-via-builtin-map", R, "    return [process_index(i) for i in indices]\n", "    return list(map(process_index, indices))\n", ("C13.7-iterator",), why="round-4 seed C13/10"),
    Mutant("twin-compute-fn-comment", R, "            handle_error(e, func, selected)\n            # handle_error raises but mypy doesn't know that\n", "            handle_error(e, func, selected)\n", twin=True),
    Mutant("twin-handle-error-local", U, "    msg = f\"Error occurred while executing function `{call_str}`.\"\n", "    msg = f\"Error occurred while executing function `{call_str}`.\"  # note\n", twin=True),
]
