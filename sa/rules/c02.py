"""C02 - calling a pipeline equals composing its functions along the DAG (structural clauses).

  1 precedence  bound > supplied > upstream output > default, identically in Pipeline._get_func_args,
                map._run._func_kwargs and PipeFunc.__call__ (each arm reads the container it tested)
  2 once        in Pipeline._run the only execution (_execute_func) is dominated by the membership memo test and by
                _get_func_args, and every normal path from it passes _update_all_results; run() seeds the memo
                with the supplied keywords
  3 routing     for a tuple output every single name is stored on every path (readers index by single names)
  4 surplus     every normal return of run() is dominated by the unused-keyword test
  5 order-free  no positional use of the function list in the evaluation machinery
  6 invalidate  every mutator of PipeFunc / Pipeline state reaches _clear_internal_cache (which also clears the owning
                pipelines), so cached views (defaults, parameters, graph) never outlive the state they were built from
  7 entry       pipeline(...), Pipeline.func(...)(...) and call_full_output all funnel into Pipeline.run with the kwargs
"""

from __future__ import annotations

import ast
import re

from ..cfg import ENTRY, EXIT, header_parts
from ..flow import reach_rejections, Defs, all_defs_text, conjuncts, guard_facts, iterations, rejections, stores_into, Scope
from ..loader import AnalysisError, FuncInfo, dotted, norm, walk_no_nested
from ..report import Ctx
from ..selftest import Mutant

PROP = "C02"
TECHNIQUE = "static analysis: guard-fact analysis of the argument-resolution decision list (per-source exclusion of higher-priority sources) + CFG dominance/must-pass on Pipeline._run/run + merge-order and mutator->invalidation path rules + publish-after-complete rule for the internal memo + positional-only entry parameters + per-iteration bookkeeping of used parameters + consumed-edge naming of producers in arg_combinations + validate-the-whole-listing rule for the constructor"
BASE = "pipefunc._pipeline._base"
EXPLANATION = (
    "Static analysis: the argument-precedence chains of the three sibling implementations are extracted (membership "
    "tests of if/elif arms, operands of the dict merge) and compared with the required order; CFG dominance and "
    "must-pass-through queries on Pipeline._run and Pipeline.run; a path rule for name routing of tuple outputs; a "
    "who-uses-positions scan of the function list; and a must-pass-through rule from every state mutation to cache invalidation."
)
TRUSTED = ["CPython ast parser", "dict merge `a | b | c`: right-most operand wins"]
DECLINED = [
    "that the composed value equals the mathematical composition (value-level)",
    "correctness of _compute_arg_mapping / arg_combinations (combinatorial enumeration)",
]

CLASS_OF = {
    "func._bound": "BOUND", "self._bound": "BOUND",
    "flat_scope_kwargs": "SUPPLIED", "run_info.inputs": "SUPPLIED", "kwargs": "SUPPLIED",
    "self.output_to_func": "UPSTREAM", "run_info.all_output_names": "UPSTREAM",
    "self.defaults": "DEFAULT", "run_info.defaults": "DEFAULT",
}
ORDER = ["BOUND", "SUPPLIED", "UPSTREAM", "DEFAULT"]


RANK = {c: i for i, c in enumerate(ORDER)}


_PROVENANCE: dict = {}  # (ctx, fn) of the function being classified, for `_classify` to follow record fields


def _record_field(text: str) -> str | None:
    """`state.provided` with `state: _RunState` (a NamedTuple / dataclass of the package): the class of what every constructor call
    `_RunState(...)` of the package passes for that field."""
    ctx, fn = _PROVENANCE.get("ctx"), _PROVENANCE.get("fn")
    m = re.fullmatch(r"(\w+)\.(\w+)", text)
    if ctx is None or fn is None or not m or m.group(1) == "self":
        return None
    P = ctx.prog
    prm = next((a for a in fn.node.args.args + fn.node.args.kwonlyargs + fn.node.args.posonlyargs if a.arg == m.group(1)), None)
    if prm is None or prm.annotation is None:
        return None
    ann = prm.annotation.value if isinstance(prm.annotation, ast.Constant) and isinstance(prm.annotation.value, str) else (dotted(prm.annotation) or norm(prm.annotation))
    q = P.resolve_name(fn.module, ann, fn)
    ci = P.classes.get(q) if q else None
    if ci is None or m.group(2) not in ci.fields:
        return None
    order = list(ci.fields)
    found: set[str | None] = set()
    for g in P.functions.values():
        for c in ast.walk(g.node):
            if isinstance(c, ast.Call) and dotted(c.func).rsplit(".", 1)[-1] == ci.name:
                a_ = next((k.value for k in c.keywords if k.arg == m.group(2)), None)
                if a_ is None and order.index(m.group(2)) < len(c.args):
                    a_ = c.args[order.index(m.group(2))]
                if a_ is None:
                    found.add(None)
                    continue
                saved = dict(_PROVENANCE)
                _PROVENANCE.update(ctx=ctx, fn=g)
                try:
                    found.add(_classify(norm(a_)) or _classify(norm(Defs(g).resolve(a_))))
                finally:
                    _PROVENANCE.clear()
                    _PROVENANCE.update(saved)
    return next(iter(found)) if len(found) == 1 else None


def _classify(text: str) -> str | None:
    if text in CLASS_OF:
        return CLASS_OF[text]
    rf = _record_field(text)
    if rf is not None:
        return rf
    if text.endswith("._bound"):
        return "BOUND"
    if text.endswith(".output_to_func") or text.endswith(".all_output_names"):
        return "UPSTREAM"
    if text.endswith(".defaults"):
        return "DEFAULT"
    return None


def _precedence(ctx: Ctx, fn: FuncInfo) -> None:  # noqa: C901
    _PROVENANCE.clear()
    _PROVENANCE.update(ctx=ctx, fn=fn)
    loops = [it for it in iterations(fn.node) if it["kind"] == "loop" and norm(it["iter"]).endswith(".parameters")]
    if not loops:
        raise AnalysisError(f"{fn.qualname}: loop over the function's parameters not found")
    loop = loops[0]["node"]
    p = norm(loop.target)
    cfg = ctx.cfg(fn)
    d = Defs(fn)
    sources: list[tuple[int, str]] = []
    for n in cfg.nodes():
        st = cfg.stmt[n]
        if not isinstance(st, (ast.Assign, ast.AnnAssign)) or st.value is None or not any(x is st for x in ast.walk(loop)):
            continue
        v = d.resolve(st.value)
        cls = None
        if isinstance(v, ast.Subscript) and norm(v.slice) == p:
            cls = _classify(norm(v.value))
        elif any(isinstance(c, ast.Call) and ((norm(c.func).endswith("._run") and (any(k.arg == "output_name" and norm(k.value) == p for k in c.keywords) or (c.args and norm(c.args[0]) == p))) or (dotted(c.func) == "_load_from_store" and c.args and norm(c.args[0]) == p)) for c in ast.walk(v)):
            cls = "UPSTREAM"
        elif isinstance(v, ast.Subscript) and norm(v.slice) == p:
            cls = f"?{norm(v.value)}"
        if cls is None and isinstance(st.value, ast.Subscript) and norm(st.value.slice) == p:
            cls = f"?{norm(d.resolve(st.value.value))}"
        if cls is not None:
            sources.append((n, cls))
    seen_classes = [c for _n, c in sources]
    unknown = [c for c in seen_classes if c.startswith("?")]
    params = set(fn.param_names())
    opaque = False
    for c in unknown:
        n = next(n for n, cc in sources if cc == c)
        root = c[1:].split(".")[0].split("[")[0]
        concrete = re.fullmatch(r"[\w.]+", c[1:]) is not None and (root in params or root == "self")
        # a parameter / attribute container that is none of the four sources is a positively identified violation;
        # anything else (a loop variable ranging over sources, a merged dict, ...) is beyond this rule: abstain
        opaque |= not concrete
        ctx.add("1-precedence", fn, cfg.stmt[n], False if concrete else None, f"the value of `{p}` is taken from `{c[1:]}`, which is none of bound / supplied / upstream output / default" if concrete else
                f"UNDECIDED: the value of `{p}` is taken from `{c[1:]}`, which this rule cannot classify", key=f"source {c[1:40]}")
    # a source consulted through `X.get(p, <sentinel>)` is excluded by a test of the RESULT, not by `p in X`: the membership facts
    # this rule reads are then incomplete, and the order is not decided here
    via_get = [c for c in ast.walk(loop) if isinstance(c, ast.Call) and isinstance(c.func, ast.Attribute) and c.func.attr == "get" and c.args and norm(c.args[0]) == p and _classify(norm(d.resolve(c.func.value)))]
    if via_get:
        opaque = True
        seen_classes = seen_classes + [_classify(norm(d.resolve(c.func.value))) for c in via_get]
    ctx.tri("1-precedence", fn, loop, set(ORDER) <= set(seen_classes), False, "values come from bound, supplied, upstream outputs and defaults", "", f"sources found: {seen_classes}", key="sources")
    for n, cls in sources:
        if cls.startswith("?"):
            continue
        facts = {}
        for t, pol in guard_facts(cfg, d, n):
            m = re.fullmatch(rf"{re.escape(p)} in (.+)", t)
            if m and _classify(m.group(1)):
                facts.setdefault(_classify(m.group(1)), pol)
        missing = [h for h in ORDER if RANK[h] < RANK[cls] and facts.get(h) is not False]
        # a higher-priority source that is consulted through an unclassified construct may be excluded there
        verdict = (not missing) if not (missing and opaque) else None
        ctx.add("1-precedence", fn, cfg.stmt[n], verdict, f"`{p}` is taken from {cls} only when it is in none of {[h for h in ORDER if RANK[h] < RANK[cls]]}" if not missing else
                (f"`{p}` is taken from {cls} without first excluding {missing}: precedence must be bound > supplied > upstream output > default" if verdict is False else
                 f"UNDECIDED: exclusion of {missing} before taking `{p}` from {cls} not recognised (sources are consulted through a construct this rule cannot classify)"), key=f"arm {cls}")
    rj = [r for r in rejections(cfg, fn.node, d) if not r["dead"] and any(x is r["node"] for x in ast.walk(loop))]
    ctx.tri("1-precedence", fn, loop, bool(rj), not rj and fn.name == "_get_func_args", "an unresolvable argument raises", "an unresolvable argument is silently accepted (no raise in the resolution loop)", "no raise in the loop", key="else-raises")


def rule_precedence(ctx: Ctx) -> None:
    P = ctx.prog
    _precedence(ctx, P.func(f"{BASE}.Pipeline._get_func_args"))
    _precedence(ctx, P.func("pipefunc.map._run._func_kwargs"))
    call = P.func("pipefunc._pipefunc.PipeFunc.__call__")
    d = Defs(call)
    merges = [d.resolve(s_.value) for s_ in walk_no_nested(call.node) if isinstance(s_, ast.Assign) and "_bound" in norm(d.resolve(s_.value)) and (isinstance(s_.value, (ast.BinOp, ast.Dict)))]
    if not merges:
        ctx.add("1-precedence", call, call.node, None, "UNDECIDED: merge of defaults, supplied keywords and bound values not found in PipeFunc.__call__", key="call-merge")
        return

    def flat(e: ast.AST) -> list[str]:
        if isinstance(e, ast.BinOp) and isinstance(e.op, ast.BitOr):
            return flat(e.left) + flat(e.right)
        if isinstance(e, ast.Dict) and all(k is None for k in e.keys):
            return [x for v in e.values for x in flat(v)]
        return [norm(e)]

    classes = [_classify(o) or CLASS_OF.get(o) or f"?{o}" for o in flat(merges[0])]
    known = [c for c in classes if not c.startswith("?")]
    good = classes == ["DEFAULT", "SUPPLIED", "BOUND"]
    inverted = len(known) == len(classes) and sorted(classes, key=lambda c: -RANK[c]) != classes
    ctx.tri("1-precedence", call, call.node, good, inverted, "defaults | kwargs | bound: bound wins, then supplied, then defaults",
            f"merge order is {classes} (right-most wins): the precedence differs from the pipeline's bound > supplied > default", f"merge operands {classes}", key="call-merge")


def _exclusion_classes(fn: FuncInfo) -> set[str] | None:
    """Classes (BOUND / UPSTREAM / ...) of the containers a default's name must NOT be in to count, in `fn`."""
    out: set[str] = set()
    found = False
    for it in iterations(fn.node):
        if ".defaults" not in norm(it["iter"]):
            continue
        found = True
        conds = list(it["filters"])
        if it["kind"] == "loop":
            for st in it["node"].body:
                if isinstance(st, ast.If) and st.body and isinstance(st.body[-1], ast.Continue):
                    conds += conjuncts(Defs(fn).resolve(st.test), False)  # facts that hold for the rest of the loop body
        else:
            conds = [f_ for g in it["node"].generators for i in g.ifs for f_ in conjuncts(i, True)]
        for t, pol in conds:
            m = re.fullmatch(r"\w+ in (.+)", t)
            if m and not pol:
                c = _classify(m.group(1)) or ("UPSTREAM" if m.group(1).endswith("output_to_func") else None)
                if c:
                    out.add(c)
    return out if found else None


def rule_defaults_siblings(ctx: Ctx) -> None:
    """Pipeline.defaults and validate_consistent_defaults agree on which defaults count (not bound, not produced)."""
    P = ctx.prog
    a = P.func(f"{BASE}.Pipeline.defaults")
    b = P.func("pipefunc._pipeline._validation.validate_consistent_defaults")
    ea, eb = _exclusion_classes(a), _exclusion_classes(b)
    if ea is None or eb is None:
        ctx.add("1-precedence", a, a.node, None, "UNDECIDED: iteration over the functions' defaults not recognised", key="defaults-siblings")
        return
    ctx.tri("1-precedence", a, a.node, ea == eb and "BOUND" in ea, bool(ea) and bool(eb) and ea != eb, f"pipeline-level defaults exclude {sorted(ea)} in both Pipeline.defaults and validate_consistent_defaults",
            f"Pipeline.defaults excludes {sorted(ea)} but validate_consistent_defaults excludes {sorted(eb)}: a default that the validator ignores (a bound or produced name) is offered as the value of a same-named root argument, or the reverse",
            f"exclusions not recognised ({sorted(ea)} / {sorted(eb)})", key="defaults-siblings")


def rule_graph_edges(ctx: Ctx) -> None:
    """A dependency edge producer -> consumer exists only for parameters that are not bound (bound wins over upstream)."""
    P = ctx.prog
    g = P.func(f"{BASE}.Pipeline.graph")
    cfg = ctx.cfg(g)
    d = Defs(g)
    loops = [it for it in iterations(g.node) if it["kind"] == "loop" and norm(it["iter"]).endswith(".parameters")]
    if not loops:
        ctx.add("1-precedence", g, g.node, None, "UNDECIDED: loop over the parameters not found in Pipeline.graph", key="graph-edges")
        return
    p_ = norm(loops[0]["target"])
    n = 0
    for node in cfg.nodes():
        st = cfg.stmt[node]
        if isinstance(st, (ast.If, ast.For, ast.While)) or not any(x is st for x in ast.walk(loops[0]["node"])):
            continue
        reads = [x for part in header_parts(st) for x in ast.walk(part) if isinstance(x, ast.Subscript) and norm(x.value).endswith("output_to_func") and norm(x.slice) == p_]
        if not reads:
            continue
        n += 1
        facts = guard_facts(cfg, d, node)
        unbound = any(re.fullmatch(rf"{re.escape(p_)} in \S*_bound", t) and not pol for t, pol in facts)
        ctx.add("1-precedence", g, st, unbound, "the producer of a parameter becomes a dependency only when the parameter is not bound" if unbound else
                f"`{norm(st)[:60]}` links the producer of `{p_}` to the consumer without excluding bound parameters: root_args / arg_combinations then list inputs that execution ignores (the bound value wins)", key="graph-edges")
    ctx.floor("1-precedence.graph-edges", n, 1)


def rule_recursion_state(ctx: Ctx) -> None:
    """A recursive enumeration must not mutate a list/set parameter in place and hand the same object to the recursive
    call: sibling branches would see each other's entries (arg_combinations then lists combinations that miss arguments)."""
    from .c10 import _param_mutations

    P = ctx.prog
    n = 0
    for fn in P.functions_in(BASE):
        rec = [c for c in ast.walk(fn.node) if isinstance(c, ast.Call) and dotted(c.func).rsplit(".", 1)[-1] == fn.name and fn.cls is None]
        if not rec:
            continue
        n += 1
        ps = fn.param_names()
        # only *sequence* state (the path taken so far): list-annotated parameters or parameters mutated with list
        # methods.  Sets that are filled in place are visited-sets / result accumulators, shared on purpose.
        ann = {a.arg: norm(a.annotation) if a.annotation is not None else "" for a in fn.params}
        listy = {p_ for p_ in ps if re.match(r"(list|List|Sequence|MutableSequence)\b", ann.get(p_, ""))}
        muts = {p_: node for p_, node in _param_mutations(fn).items() if p_ in listy} | {
            x.func.value.id: x for x in ast.walk(fn.node) if isinstance(x, ast.Call) and isinstance(x.func, ast.Attribute) and x.func.attr in ("append", "extend", "insert") and isinstance(x.func.value, ast.Name)
            and x.func.value.id in ps}
        shared = [(p_, c) for p_ in muts for c in rec for i, a in enumerate(c.args) if isinstance(a, ast.Name) and a.id == p_ and i < len(ps) and ps[i] == p_]
        ctx.add("5-order-free", fn, muts[shared[0][0]] if shared else fn.node, not shared, f"{fn.name}: per-branch state is passed down as a fresh copy" if not shared else
                f"`{norm(muts[shared[0][0]])[:50]}` mutates the parameter `{shared[0][0]}` and the same object is handed to the recursive call: sibling branches of the recursion see each other's entries", key=f"recursion-state {fn.name}")
    ctx.floor("5-order-free.recursion", n, 1)


def _has_call(st: ast.AST, name: str) -> bool:
    return any(isinstance(c, ast.Call) and dotted(c.func).rsplit(".", 1)[-1] == name for part in header_parts(st) for c in ast.walk(part))


def rule_once(ctx: Ctx) -> None:
    P = ctx.prog
    run_ = P.func(f"{BASE}.Pipeline._run")
    cfg = ctx.cfg(run_)
    exe = cfg.nodes(lambda s: _has_call(s, "_execute_func"))
    if len(exe) != 1:
        raise AnalysisError(f"Pipeline._run: expected exactly one _execute_func call, found {len(exe)}")
    memo_p = "all_results"
    if memo_p not in run_.param_names():
        # the per-call state travels in another representation (e.g. grouped into one record object): the rules below read the
        # memo as the parameter `all_results` and cannot follow it there
        ctx.add("2-once", run_, run_.node, None, "UNDECIDED: Pipeline._run has no parameter `all_results`; the representation of the per-call memo is not recognised", key="memo-test")
        return
    tests = [n for n in cfg.nodes(lambda s: isinstance(s, ast.If)) if memo_p in norm(cfg.stmt[n].test) and cfg.dominates(n, exe[0])
             and any(isinstance(r, ast.Return) for r in cfg.stmt[n].body) and not any(isinstance(x, ast.Name) and x.id != memo_p and x.id not in run_.param_names() for x in ast.walk(cfg.stmt[n].test))]
    member = [n for n in tests if isinstance(cfg.stmt[n].test, ast.Compare) and len(cfg.stmt[n].test.ops) == 1 and isinstance(cfg.stmt[n].test.ops[0], ast.In) and norm(cfg.stmt[n].test.comparators[0]) == memo_p]
    ctx.tri("2-once", run_, cfg.stmt[(member or tests or exe)[0]], bool(member), not member,
            "a membership test of the memo dominates the execution", "the execution is not preceded by a membership test `output_name in all_results`" + (f" (the test is `{norm(cfg.stmt[tests[0]].test)}`: a stored None/falsy result is recomputed)" if tests else ": every request re-executes the function"), key="memo-test")
    gfa = cfg.nodes(lambda s: _has_call(s, "_get_func_args"))
    ctx.tri("2-once", run_, cfg.stmt[gfa[0]] if gfa else run_.node, bool(gfa) and all(cfg.dominates(g, exe[0]) for g in gfa), bool(gfa) and not all(cfg.dominates(g, exe[0]) for g in gfa),
            "arguments (and thereby all dependencies) are resolved before execution", "_execute_func is reachable without _get_func_args", "_get_func_args call not found", key="deps-first")
    stores = stores_into(ctx, run_, memo_p)
    upd = {n for n in (cfg.node_containing(x) for x, _chain in stores) if n is not None}
    # a loop over the names of the output that stores each of them is a storing step as a whole (the zero-iteration path of a
    # loop over a tuple of output names is not a path on which "nothing was stored" matters)
    for lp in [x for x in ast.walk(run_.node) if isinstance(x, ast.For) and any(any(y is sx for y in ast.walk(x)) for sx, _c in stores)]:
        upd.add(cfg.node(lp))
    ok = bool(upd) and cfg.must_pass(exe[0], EXIT, upd, normal_only=True)
    wp = None if ok else cfg.witness_path(exe[0], EXIT, upd)
    ctx.add("2-once", run_, cfg.stmt[exe[0]], ok, "every normal path from the execution stores the result in the memo" if ok else "a path from _execute_func to the return never stores the result in the memo `all_results` (the function would run again)", key="memo-store",
            path=cfg.describe(wp, run_.module.relpath) if wp else None)
    rn = P.func(f"{BASE}.Pipeline.run")
    d = Defs(rn)
    calls = [c for c in ast.walk(rn.node) if isinstance(c, ast.Call) and norm(c.func).endswith("._run")]
    if calls:
        seed = next((k.value for k in calls[0].keywords if k.arg == memo_p), None)
        t = norm(d.resolve(seed)) if seed is not None else "?"
        defs_t = all_defs_text(rn.node, seed.id) if isinstance(seed, ast.Name) else t
        seeded = "kwargs" in (t + defs_t)
        ctx.tri("2-once", rn, calls[0], seeded, not seeded and (defs_t.strip() in ("{}", "dict()")), "the memo starts from the supplied keywords: a supplied intermediate replaces its producer",
                "run() starts from an empty memo: a supplied intermediate value is ignored and its producer runs", f"memo seed `{(t + ' ' + defs_t)[:50]}`", key="seed")
    gfa_fn = P.func(f"{BASE}.Pipeline._get_func_args")
    rec = [c for c in ast.walk(gfa_fn.node) if isinstance(c, ast.Call) and norm(c.func) == "self._run"]
    shares = [c for c in rec if any(k.arg == memo_p and norm(k.value) == memo_p for k in c.keywords)]
    ctx.tri("2-once", gfa_fn, rec[0] if rec else gfa_fn.node, bool(rec) and len(shares) == len(rec), bool(rec) and len(shares) != len(rec), "the recursion shares the one memo of this call",
            "the recursive _run call does not pass on the memo of the current evaluation: shared dependencies run once per consumer", "recursive call not found", key="recursion-shares-memo")


def _memo_store_function(ctx: Ctx) -> tuple[FuncInfo, str, str | None]:
    """The function that Pipeline._run hands the memo to for storing a result, found through the call graph (not by
    name): (function, its memo parameter, the parameter that receives the requested output name)."""
    P = ctx.prog
    run_ = P.func(f"{BASE}.Pipeline._run")
    exe = [c for c in ast.walk(run_.node) if isinstance(c, ast.Call) and dotted(c.func).rsplit(".", 1)[-1] == "_execute_func"]
    after = exe[0].lineno if exe else 0
    for x, chain in sorted(stores_into(ctx, run_, "all_results"), key=lambda t: t[0].lineno):
        if chain and isinstance(x, ast.Call) and x.lineno > after:
            from ..flow import bind_args

            callee, memo = chain[-1]
            req = None
            if len(chain) == 1:
                req = next((p_ for p_, a in bind_args(x, callee).items() if isinstance(a, ast.Name) and a.id == "output_name"), None)
            return callee, memo, req
    raise AnalysisError("Pipeline._run: no call that stores the result of the execution into the memo was found")


def rule_routing(ctx: Ctx) -> None:
    P = ctx.prog
    ur, memo, requested = _memo_store_function(ctx)
    cfg = ctx.cfg(ur)
    d = Defs(ur)

    def is_own_names(e: ast.AST) -> bool:
        r = d.resolve(e)
        return isinstance(r, ast.Attribute) and r.attr == "output_name"

    stores = [(a, t) for a in ast.walk(ur.node) if isinstance(a, ast.Assign) for t in a.targets if isinstance(t, ast.Subscript) and norm(t.value) == memo]
    per_name = [it for it in iterations(ur.node) if it["kind"] == "loop" and is_own_names(it["iter"])
                and any(norm(t.slice) == norm(it["target"]) and any(x is a for x in ast.walk(it["node"])) for a, t in stores)]
    partial = [it for it in iterations(ur.node) if it["kind"] == "loop" and not is_own_names(it["iter"]) and isinstance(d.resolve(it["iter"]), (ast.IfExp, ast.Subscript, ast.Tuple, ast.List, ast.ListComp, ast.GeneratorExp))
               and any(isinstance(x, ast.Attribute) and x.attr == "output_name" for x in ast.walk(d.resolve(it["iter"])))
               and any(norm(t.slice) == norm(it["target"]) and any(x is a for x in ast.walk(it["node"])) for a, t in stores)]
    if partial and not per_name:
        ctx.add("3-routing", ur, partial[0]["node"], False, f"the single names of a tuple output are stored for `{norm(d.resolve(partial[0]['iter']))[:70]}` only, not for every name of the function's output: consumers of the other names re-run the function or fail", key="all-names")
        per_name = None  # type: ignore[assignment]
    opaque = [a for a, t in stores if not (is_own_names(t.slice) or any(norm(t.slice) == norm(it["target"]) for it in (per_name or partial)))]
    if per_name is None:
        pass
    elif per_name:
        n = cfg.node(per_name[0]["node"])
        facts = guard_facts(cfg, d, n)
        on_request = [t for t, _pol in facts if requested and re.search(rf"(?<![\w.]){re.escape(requested)}\b", t)]
        ctx.add("3-routing", ur, per_name[0]["node"], not on_request, "every name of a tuple output is stored, whatever was requested" if not on_request else
                f"single names are only stored under `{on_request[0]}`: when the tuple itself is requested, readers indexing by name (NestedPipeFunc wrapper, full_output) fail", key="all-names")
    else:
        # no per-name store at all is a positively identified violation only when every store of the function is understood
        unknown = bool(opaque) or any(isinstance(c, ast.Call) and isinstance(c.func, ast.Attribute) and c.func.attr == "update" and norm(c.func.value) == memo for c in ast.walk(ur.node)) or len(stores_into(ctx, ur, memo)) > len(stores)
        ctx.tri("3-routing", ur, ur.node, False, not unknown and bool(stores), "", "no loop stores every name of a tuple output into the per-call results: consumers of a single name re-run the function or fail",
                "how the names of a tuple output reach the per-call results was not recognised", key="all-names")
    single = [a for a, t in stores if is_own_names(t.slice)]
    ctx.tri("3-routing", ur, single[0] if single else ur.node, bool(single), not single and bool(stores) and not opaque, "results are stored under the function's output name", "nothing is stored under the function's own output name", "stores into the memo not recognised", key="single-store")
    nw = P.func("pipefunc._pipefunc._NestedFuncWrapper.__call__")
    ctx.tri("3-routing", nw, nw.node, "[self.output_name]" in norm(nw.node) and "for name in self.output_name" in norm(nw.node), False, "nested wrapper reads the results by single name, in output_name order", "", "nested reader not recognised", key="nested-reader")


def rule_surplus(ctx: Ctx) -> None:
    P = ctx.prog
    rn = P.func(f"{BASE}.Pipeline.run")
    cfg = ctx.cfg(rn)
    if "used_parameters" not in P.func(f"{BASE}.Pipeline._run").param_names():
        # the set of consumed keywords travels in another representation (renamed / grouped into a per-call record)
        ctx.add("4-surplus", rn, rn.node, None, "UNDECIDED: Pipeline._run has no parameter `used_parameters`; how the consumed keywords are recorded and compared is not recognised", key="unused-test")
        return
    rj = [r for r in rejections(cfg, rn.node) if not r["dead"] and "Unused" in norm(r["node"])]
    if not rj:  # the rejection may sit in a helper / a method of a per-call record that run() calls
        rj = [r for r in reach_rejections(ctx, rn, depth=2) if not r["dead"] and "Unused" in norm(r["node"])]
    ctx.tri("4-surplus", rn, rj[0]["node"] if rj else rn.node, bool(rj), not rj, "surplus keywords raise UnusedParametersError", "run() never raises UnusedParametersError: surplus (mistyped) keywords are silently ignored", key="unused-test")
    if rj:
        conds = " && ".join(rj[0]["conds"])
        # through the locals the condition is computed from (`unused = [... if name not in used_parameters]; if unused: raise`)
        from ..flow import dependence_text

        conds = conds + " ;; " + " ;; ".join(dependence_text(rj[0].get("fn", rn).node if rj[0].get("fn") is not None else rn.node, t_) for t_, _truth in rj[0]["tests"])
        weak = "used_parameters" not in conds
        ctx.tri("4-surplus", rn, rj[0]["node"], "used_parameters" in conds and ("-" in conds or "difference" in conds or "not in" in conds or "<=" in conds or "issubset" in conds), weak,
                "the rejection compares the supplied keywords with the parameters that were used", f"the rejection `{conds[:80]}` does not look at the used parameters", f"condition `{conds[:60]}`", key="unused-cond")
    # run() itself resolves no argument: the set of used parameters it hands down is filled only by the functions that resolve
    # arguments (or mark a cache hit); an entry added in run() declares a keyword used that no function received
    handed = [k.value.id for c in ast.walk(rn.node) if isinstance(c, ast.Call) and norm(c.func).endswith("._run") for k in c.keywords if isinstance(k.value, ast.Name) and "used" in (k.arg or "")]
    if handed:
        own = [c for c in ast.walk(rn.node) if isinstance(c, ast.Call) and isinstance(c.func, ast.Attribute) and c.func.attr in ("add", "update", "__ior__") and isinstance(c.func.value, ast.Name) and c.func.value.id == handed[0]] + \
              [a for a in ast.walk(rn.node) if isinstance(a, ast.AugAssign) and isinstance(a.target, ast.Name) and a.target.id == handed[0]]
        ctx.add("4-surplus", rn, own[0] if own else rn.node, not own, f"run() only reads `{handed[0]}`; it is filled where arguments are resolved" if not own else
                f"`{norm(own[0])[:70]}` adds to `{handed[0]}` in run() itself: keywords that no function consumed are declared used, so surplus (mistyped or cut-off) keywords are no longer rejected", key="used-writers")
    gfa_fn = P.func(f"{BASE}.Pipeline._get_func_args")
    used = [c for c in ast.walk(gfa_fn.node) if isinstance(c, ast.Call) and isinstance(c.func, ast.Attribute) and c.func.attr in ("add", "update") and "used_parameters" in norm(c.func.value)]
    ctx.tri("4-surplus", gfa_fn, used[0] if used else gfa_fn.node, bool(used), not used, "every resolved parameter is recorded as used", "_get_func_args no longer records the parameters it consumed: every call with keywords is rejected as having surplus ones", key="records-used")
    # ... for EVERY parameter, whichever source its value came from (bound, supplied, upstream, default): an iteration of the resolution
    # loop that goes on to the next parameter without recording this one makes a keyword supplied for it "unused" - a nested pipeline,
    # which is handed all its kwargs, then raises where the flat pipeline returns a value
    if used:
        gcfg = ctx.cfg(gfa_fn)
        add_nodes = {n_ for n_ in (gcfg.node_containing(u) for u in used) if n_ is not None}
        loops = [lp for lp in gcfg.nodes(lambda s_: isinstance(s_, ast.For)) if any(a_ in gcfg.reachable_from(lp) for a_ in add_nodes) and "parameters" in norm(gcfg.stmt[lp].iter)]
        for lp in loops[:1]:
            body0 = gcfg.node(gcfg.stmt[lp].body[0])
            back = lp in gcfg.reachable_from(body0, without=add_nodes, normal_only=True) if body0 not in add_nodes else False
            ctx.add("4-surplus", gfa_fn, gcfg.stmt[sorted(add_nodes)[0]], not back, "every iteration of the resolution loop records its parameter as used" if not back else
                    "an iteration of the resolution loop can move on to the next parameter without recording this one as used (a `continue` before the bookkeeping): a value supplied for such a parameter - a nested pipeline forwards "
                    "all of its kwargs - is reported as an unused keyword although the flat pipeline accepts the same call", key="records-used-every-iteration")


def rule_order_free(ctx: Ctx) -> None:
    P = ctx.prog
    n5 = 0
    for m in ("pipefunc._pipeline._base", "pipefunc._pipeline._cache", "pipefunc._pipeline._validation", "pipefunc.map._run", "pipefunc.map._shapes", "pipefunc.map._prepare"):
        for fn in P.functions_in(m):
            for x in walk_no_nested(fn.node):
                pos = None
                if isinstance(x, ast.Subscript) and norm(x.value).endswith(".functions") and not isinstance(x.slice, ast.Slice):
                    pos = x
                if isinstance(x, ast.Call) and isinstance(x.func, ast.Attribute) and x.func.attr == "index" and norm(x.func.value).endswith(".functions"):
                    pos = x
                if isinstance(x, ast.Call) and dotted(x.func) == "enumerate" and x.args and norm(x.args[0]).endswith(".functions"):
                    pos = x
                if pos is not None:
                    n5 += 1
                    ctx.add("5-order-free", fn, pos, False, f"`{norm(pos)}` uses the position of a function in the listing: results depend on listing order")
    ctx.add("5-order-free", BASE, "", n5 == 0, "no positional use of `.functions` in the evaluation machinery", key="scan")
    # the constructor validates the pipeline as a WHOLE: a validation of the partial pipeline after every single function judges
    # a prefix of the listing - e.g. two consumers with different defaults for a name are refused unless the producer of that name
    # happens to be listed before the second of them
    init = P.func(f"{BASE}.Pipeline.__init__")
    pl_cls = P.cls(f"{BASE}.Pipeline")

    def self_calls(node: ast.AST) -> list[ast.Call]:
        return [c for c in ast.walk(node) if isinstance(c, ast.Call) and isinstance(c.func, ast.Attribute) and norm(c.func.value) == "self" and c.func.attr in dict.keys(pl_cls.methods)]

    # Pipeline methods that validate, followed through `self.<method>(...)` calls only (the receiver is the pipeline itself)
    validating = {"_validate"}
    grew = True
    while grew:
        grew = False
        for nm, m in dict.items(pl_cls.methods):
            if nm not in validating and nm != "__init__" and any(c.func.attr in validating for c in self_calls(m.node)):
                validating.add(nm)
                grew = True
    loops = [lp for lp in walk_no_nested(init.node) if isinstance(lp, ast.For) and any(isinstance(x, ast.Name) and x.id == "functions" for x in ast.walk(lp.iter))]
    in_loop = {id(c) for lp in loops for c in self_calls(lp)}
    inside = [c for c in self_calls(init.node) if id(c) in in_loop and c.func.attr in validating]
    after = [c for c in self_calls(init.node) if id(c) not in in_loop and c.func.attr in validating]
    ctx.tri("5-order-free", init, inside[0] if inside else (loops[0] if loops else init.node), bool(loops) and not inside and bool(after), bool(inside),
            "the constructor adds all functions and validates the complete pipeline",
            f"`{norm(inside[0])[:50] if inside else ''}` validates the PARTIAL pipeline after every function of the listing: whether a pipeline can be constructed depends on the listing order "
            "([f(c=1), g(c=2), h -> c] is refused for inconsistent defaults of `c`, [h, f, g] is accepted - `c` is an output there and the defaults are irrelevant)",
            "the constructor's loop over the functions / its validation was not recognised", key="validate-whole-listing")


def rule_combinations_name_consumed_outputs(ctx: Ctx) -> None:
    """Every argument combination that arg_combinations lists is accepted: a producer stands in a combination for the outputs
    that are CONSUMED on the way to the requested output (the edge attribute `arg`), not for all of its outputs - the unconsumed
    sibling of a tuple output is a surplus keyword, which run() refuses."""
    P = ctx.prog
    ac = P.func(f"{BASE}.Pipeline.arg_combinations")
    funcs = Scope(ctx, ac, wide=True).funcs
    whole, consumed = [], []
    # a function handed over as `key=` orders the nodes; what it computes from a node never becomes a name of a combination
    key_funcs = {norm(k.value) for f_ in funcs for c in ast.walk(f_.node) if isinstance(c, ast.Call) for k in c.keywords if k.arg == "key"}
    for f_ in funcs:
        if f_ is ac or f_.is_property or f_.name in ("graph", "output_to_func", "node_mapping"):
            continue  # the graph BUILDER also touches the edge attribute; this rule is about the enumeration
        if f_.name in key_funcs:
            continue
        d_ = Defs(f_)
        joined = {id(a) for c in ast.walk(f_.node) if isinstance(c, ast.Call) and isinstance(c.func, ast.Attribute) and c.func.attr == "join" and isinstance(c.func.value, ast.Constant) for a in c.args}
        for c in ast.walk(f_.node):
            if isinstance(c, ast.Call) and dotted(c.func).rsplit(".", 1)[-1] == "at_least_tuple" and c.args and isinstance(c.args[0], ast.Attribute) and c.args[0].attr == "output_name" and id(c) not in joined:
                whole.append((f_, c))
            if isinstance(c, ast.Subscript) and isinstance(c.slice, ast.Constant) and c.slice.value == "arg":
                src = norm(c.value) + " " + norm(d_.resolve(c.value))
                if "edges" in src or "get_edge_data" in src:
                    consumed.append((f_, c))
    ctx.tri("7-entry", (whole or consumed or [(ac, ac.node)])[0][0], (whole or consumed or [(ac, ac.node)])[0][1], bool(consumed) and not whole, bool(whole) and not consumed,
            "a producer contributes the names on its consumed edges to a combination",
            f"`{norm(whole[0][1]) if whole else ''}` names a producer by ALL of its outputs: for `a, b = f(x); c = g(a)` arg_combinations('c') lists ('a', 'b'), which pipeline('c', a=.., b=..) refuses (b is unused), "
            "and the combination ('a',) that suffices is missing", "how a producer is named in a combination was not recognised", key="combinations-consumed-outputs")


def rule_entry(ctx: Ctx) -> None:
    P = ctx.prog
    for q, what in ((f"{BASE}.Pipeline.__call__", "pipeline(...)"), (f"{BASE}._PipelineAsFunc.__call__", "Pipeline.func(...)(...)"), (f"{BASE}._PipelineAsFunc.call_full_output", "call_full_output")):
        f = P.func(q)
        d = Defs(f)
        kwp = f.node.args.kwarg.arg if f.node.args.kwarg else "kwargs"
        runs = [c for c in ast.walk(f.node) if isinstance(c, ast.Call) and norm(c.func).endswith(".run")]
        if not runs:
            ctx.add("7-entry", f, f.node, None, f"UNDECIDED: {what}: call of run() not found", key=f"entry {f.qualname.rsplit('.', 2)[-2]}.{f.name}")
            continue
        passed = next((k.value for k in runs[0].keywords if k.arg == "kwargs"), None)
        t = norm(d.resolve(passed)) if passed is not None else "?"
        ctx.tri("7-entry", f, runs[0], t == kwp, passed is not None and t != kwp and isinstance(d.resolve(passed), (ast.DictComp, ast.Dict, ast.Call)), f"{what} forwards all keyword arguments to run()",
                f"{what} forwards `{t[:60]}` instead of the keyword arguments it received: arguments are dropped or altered before evaluation", f"forwards `{t[:40]}`", key=f"entry {f.qualname.rsplit('.', 2)[-2]}.{f.name}")
    pfun = P.func(f"{BASE}.Pipeline.func")
    d = Defs(pfun)
    req = [p_ for p_ in pfun.param_names() if p_ != "self"][0]
    keys = [d.resolve(x.slice) for x in ast.walk(pfun.node) if isinstance(x, ast.Subscript) and "_internal_cache" in norm(x.value)] + \
           [d.resolve(c.args[0]) for c in ast.walk(pfun.node) if isinstance(c, ast.Call) and isinstance(c.func, ast.Attribute) and c.func.attr in ("get", "setdefault") and "_internal_cache" in norm(c.func.value) and c.args]
    other = [k for k in keys if norm(k) != req]
    ctx.tri("7-entry", pfun, pfun.node, bool(keys) and not other, bool(other), "Pipeline.func memoises the composed function under the requested output name",
            f"Pipeline.func memoises under `{norm(other[0])[:50] if other else ''}`, not under the requested output name: asking for another name of the same function returns the wrapper of the first one", "memoisation of Pipeline.func not found", key="func-memo-key")
    fo = P.func(f"{BASE}._PipelineAsFunc.call_full_output")
    full = [k for c in ast.walk(fo.node) if isinstance(c, ast.Call) and norm(c.func).endswith(".run") for k in c.keywords if k.arg == "full_output"]
    ctx.tri("7-entry", fo, fo.node, bool(full) and isinstance(full[0].value, ast.Constant) and full[0].value.value is True, not full, "call_full_output = run(..., full_output=True)", "call_full_output does not ask run() for the full output", key="full-output")


def rule_publish_after_complete(ctx: Ctx) -> None:
    """A value is put into the pipeline's internal memo only once it is complete.  Registering the (still empty) container first and
    filling it afterwards publishes a half-built value: an interruption of the filling (KeyboardInterrupt, an exception, a second
    thread making the same first call) leaves the partial set in the memo, and every later call answers from it."""
    from ..flow import param_mutated_in_closure

    P = ctx.prog
    pl = P.cls(f"{BASE}.Pipeline")
    MUT = {"add", "append", "extend", "update", "insert", "setdefault", "discard", "remove", "pop", "clear", "__setitem__"}
    n, bad = 0, []
    for fn in pl.methods.values():
        if "_internal_cache" not in norm(fn.node):
            continue
        cfg = ctx.cfg(fn)
        published: list[tuple[str, int]] = []
        for nd in cfg.nodes(lambda s_: isinstance(s_, (ast.Assign, ast.AnnAssign))):
            st = cfg.stmt[nd]
            tg = st.targets if isinstance(st, ast.Assign) else [st.target]
            val = st.value
            if val is None:
                continue
            if isinstance(val, ast.Call) and isinstance(val.func, ast.Attribute) and val.func.attr == "setdefault" and "_internal_cache" in norm(val.func.value):
                published += [(t.id, nd) for t in tg if isinstance(t, ast.Name)]
            for t in tg:
                if isinstance(t, ast.Subscript) and "_internal_cache" in norm(t.value) and isinstance(val, ast.Name):
                    published.append((val.id, nd))
        for name, nd in published:
            n += 1
            later = cfg.reachable_from(nd) - {nd}
            for m in sorted(later):
                st = cfg.stmt.get(m)
                if st is None:
                    continue
                for part in header_parts(st):
                    for c in ast.walk(part):
                        if not isinstance(c, ast.Call):
                            continue
                        if isinstance(c.func, ast.Attribute) and c.func.attr in MUT and isinstance(c.func.value, ast.Name) and c.func.value.id == name:
                            bad.append((fn, st, name))
                        for callee in ctx.cg.resolve_callable(fn, c.func):
                            from ..flow import bind_args

                            for prm, a_ in bind_args(c, callee).items():
                                if isinstance(a_, ast.Name) and a_.id == name and param_mutated_in_closure(ctx, callee, prm):
                                    bad.append((fn, st, name))
    ctx.add("7-entry", bad[0][0] if bad else pl.methods["arg_combinations"], bad[0][1] if bad else pl.methods["arg_combinations"].node, not bad,
            f"what is put into the internal memo is complete when it is stored ({n} store(s))" if not bad else
            f"`{bad[0][2]}` is already registered in the pipeline's internal memo when `{norm(bad[0][1])[:60]}` still fills it: if the filling is interrupted (exception, Ctrl-C, a concurrent first call) the half-built value stays "
            "in the memo and every later pipeline(...) / run / func for that output answers from it", key="publish-after-complete")
    ctx.floor("7-entry.memo-stores", n, 1)


def rule_entry_captures_no_keyword(ctx: Ctx) -> None:
    """`pipeline(name, **kwargs)` forwards ARBITRARY user parameter names as keywords.  Every other parameter of such an entry
    point must be positional-only: an ordinary parameter `output_name` would capture the keyword of a pipeline argument that
    happens to be called `output_name` - the call then selects another output or fails, while run()/func() still work."""
    P = ctx.prog
    n = 0
    for q in (f"{BASE}.Pipeline.__call__", "pipefunc._pipeline._base._PipelineAsFunc.__call__"):
        fn = P.functions.get(q)
        if fn is None or fn.node.args.kwarg is None:
            continue
        kw = fn.node.args.kwarg.arg
        forwards = any(isinstance(c, ast.Call) and any((k.arg is None and norm(k.value) == kw) or (k.arg == "kwargs" and norm(k.value) == kw) for k in c.keywords) for c in ast.walk(fn.node))
        if not forwards:
            continue
        n += 1
        capturing = [a.arg for a in [*fn.node.args.args, *fn.node.args.kwonlyargs] if a.arg not in ("self", "cls")]
        ctx.add("7-entry", fn, fn.node, not capturing, f"{fn.cls.name if fn.cls else ''}.__call__ takes its own parameters positional-only; every keyword is a pipeline argument" if not capturing else
                f"{fn.cls.name if fn.cls else ''}.__call__ has the ordinary parameter(s) {capturing} next to **{kw}: a pipeline argument of that name can no longer be passed by keyword - it is captured "
                "by the entry point itself (another output is computed, or TypeError), while run() and func() accept it", key=f"entry-captures {fn.qualname.rsplit('.', 2)[-2]}")
    ctx.floor("7-entry.kwargs-entries", n, 1)


def check(ctx: Ctx) -> None:
    for rule in (rule_precedence, rule_defaults_siblings, rule_graph_edges, rule_recursion_state, rule_once, rule_routing, rule_surplus, rule_order_free, _invalidate, rule_entry, rule_combinations_name_consumed_outputs, rule_entry_captures_no_keyword, rule_publish_after_complete):
        ctx.run(rule)


MUTATED_FIELDS = {"_defaults", "_bound", "_renames", "mapspec"}


def _invalidate(ctx: Ctx) -> None:
    P = ctx.prog
    pf = P.cls("pipefunc._pipefunc.PipeFunc")
    n = 0
    for name, fn in pf.methods.items():
        if name in ("__init__", "__setstate__", "copy") or fn.is_property:
            continue
        cfg = ctx.cfg(fn)
        writes = cfg.nodes(lambda s: isinstance(s, ast.Assign) and any(isinstance(t, ast.Attribute) and isinstance(t.value, ast.Name) and t.value.id == "self" and t.attr in MUTATED_FIELDS for t in s.targets))
        if not writes:
            continue
        clears = set(cfg.nodes(lambda s: isinstance(s, ast.Expr) and isinstance(s.value, ast.Call) and norm(s.value.func) == "self._clear_internal_cache"))
        for w in writes:
            n += 1
            ok = bool(clears) and cfg.must_pass(w, EXIT, clears, normal_only=True)
            ctx.add("6-invalidate", fn, cfg.stmt[w], ok, "state change is followed by _clear_internal_cache on every path" if ok else
                    "state is changed but cached views (own and of the owning pipelines: defaults, parameters, graph) are not invalidated on every path", key=f"{name}: {norm(cfg.stmt[w].targets[0])}")
    ctx.floor("6-invalidate.pipefunc", n, 6)
    ci = pf.methods["_clear_internal_cache"]
    src = norm(ci.node)
    reaches = "pipefunc._pipeline._base.Pipeline._clear_internal_cache" in ctx.cg.reachable(ci.qualname) or ("_pipelines" in src and "_clear_internal_cache()" in src)
    ctx.add("6-invalidate", ci, ci.node, reaches, "clears own cached properties and those of every owning pipeline" if reaches else "PipeFunc._clear_internal_cache no longer reaches the owning pipelines: their cached defaults / parameters / graph go stale", key="clear-reaches-pipelines")
    pl = P.cls(f"{BASE}.Pipeline")
    pci = pl.methods["_clear_internal_cache"]
    ctx.tri("6-invalidate", pci, pci.node, "clear_cached_properties(self" in norm(pci.node), False, "Pipeline clears all its cached properties", "", "Pipeline._clear_internal_cache not recognised", key="pipeline-clear")
    # ... for instances of SUBCLASSES as well: clear_cached_properties(obj) without `until_type` walks no further than type(obj), so
    # the cached properties that the class itself defines are only cleared for its subclasses when the class is named
    for cls_, ci_ in ((pf, ci), (pl, pci)):
        calls_ = [c for c in ast.walk(ci_.node) if isinstance(c, ast.Call) and dotted(c.func).rsplit(".", 1)[-1] == "clear_cached_properties"]
        if not calls_:
            continue
        until = calls_[0].args[1] if len(calls_[0].args) > 1 else next((k.value for k in calls_[0].keywords if k.arg == "until_type"), None)
        names_ok = until is not None and norm(until) in {c_.name for c_ in P.mro(cls_.qualname)} | {"type(self).__mro__[-2]"}
        ctx.tri("6-invalidate", ci_, calls_[0], names_ok, until is None, f"{cls_.name}._clear_internal_cache clears the cached properties defined by {cls_.name} for instances of subclasses too",
                f"`{norm(calls_[0])}` gives no `until_type`: for an instance of a subclass of {cls_.name} only the cached properties the subclass itself defines are cleared - graph, defaults, output_to_func ... of {cls_.name} stay as they "
                "were, so after add / drop / update_* the object keeps answering from the old structure (new functions unknown, removed ones still run)", f"until_type `{norm(until) if until is not None else ''}` not recognised", key=f"clear-for-subclasses {cls_.name}")
    m = 0
    for name, fn in pl.methods.items():
        if name in ("__init__",) or fn.is_property:
            continue
        cfg = ctx.cfg(fn)
        muts = cfg.nodes(lambda s: isinstance(s, ast.Expr) and isinstance(s.value, ast.Call) and isinstance(s.value.func, ast.Attribute) and norm(s.value.func.value) == "self.functions" and s.value.func.attr in ("append", "remove", "pop", "insert", "extend", "clear")
                         or (isinstance(s, ast.Expr) and isinstance(s.value, ast.Call) and isinstance(s.value.func, ast.Attribute) and s.value.func.attr in ("update_defaults", "update_renames", "update_scope", "update_bound") and norm(s.value.func.value) == "f"))
        if not muts:
            continue
        clears = set(cfg.nodes(lambda s: isinstance(s, ast.Expr) and isinstance(s.value, ast.Call) and norm(s.value.func) in ("self._clear_internal_cache", "self.drop", "self.add")))
        for w in muts:
            m += 1
            ok = bool(clears) and cfg.must_pass(w, EXIT, clears, normal_only=True)
            ctx.add("6-invalidate", fn, cfg.stmt[w], ok, "pipeline mutation is followed by cache invalidation on every path" if ok else "the pipeline is mutated without invalidating its cached views", key=f"{name}: {norm(cfg.stmt[w])[:60]}")
    ctx.floor("6-invalidate.pipeline", m, 5)
    cc = P.func("pipefunc._utils.clear_cached_properties")
    t = norm(cc.node)
    ctx.tri("6-invalidate", cc, cc.node, "cached_property" in t and "delattr(" in t and "__base__" in t, "delattr(" not in t and "__dict__.pop(" not in t, "every cached_property of the class and its bases is dropped",
            "clear_cached_properties never deletes an attribute", "clear_cached_properties not recognised", key="clear-impl")


B, R, PF = "pipefunc/_pipeline/_base.py", "pipefunc/map/_run.py", "pipefunc/_pipefunc.py"
MUTANTS = [
    Mutant("pipeline-clear-without-until-type-F45", "pipefunc/_pipeline/_base.py", "        clear_cached_properties(self, Pipeline)  # also when `self` is an instance of a subclass\n", "        clear_cached_properties(self)\n", ("C02.6-invalidate",), why="original F45"),
    Mutant("swap-arms-get-func-args", B, "            if arg in func._bound:\n                value = func._bound[arg]\n            elif arg in flat_scope_kwargs:\n                value = flat_scope_kwargs[arg]\n",
           "            if arg in flat_scope_kwargs:\n                value = flat_scope_kwargs[arg]\n            elif arg in func._bound:\n                value = func._bound[arg]\n", ("C02.1-precedence",)),
    Mutant("supplied-from-memo", B, "            elif arg in flat_scope_kwargs:\n                value = flat_scope_kwargs[arg]\n", "            elif arg in all_results:\n                value = all_results[arg]\n", ("C02.1-precedence",), why="seeded C02/1"),
    Mutant("map-default-before-output", R, "        elif p in run_info.all_output_names:\n            kwargs[p] = _load_from_store(p, store).value\n        elif p in run_info.defaults and p not in run_info.all_output_names:\n            kwargs[p] = run_info.defaults[p]\n",
           "        elif p in run_info.defaults:\n            kwargs[p] = run_info.defaults[p]\n        elif p in run_info.all_output_names:\n            kwargs[p] = _load_from_store(p, store).value\n", ("C02.1-precedence",)),
    Mutant("call-merge-order", PF, "        kwargs = self.defaults | kwargs | self._bound\n", "        kwargs = self.defaults | self._bound | kwargs\n", ("C02.1-precedence",)),
    Mutant("memo-get-not-none", B, "        if output_name in all_results:\n            return all_results[output_name]\n        func = self.output_to_func[output_name]",
           "        if all_results.get(output_name) is not None:\n            return all_results[output_name]\n        func = self.output_to_func[output_name]", ("C02.2-once",), why="seeded C02/2"),
    Mutant("no-memo-test", B, "        if output_name in all_results:\n            return all_results[output_name]\n        func = self.output_to_func[output_name]", "        func = self.output_to_func[output_name]", ("C02.2-once",)),
    Mutant("run-does-not-seed", B, "all_results: dict[OUTPUT_TYPE, Any] = flat_scope_kwargs.copy()  # type: ignore[assignment]", "all_results: dict[OUTPUT_TYPE, Any] = {}", ("C02.2-once",)),
    Mutant("routing-original-F10", B, "    if isinstance(func.output_name, tuple):\n        # Function produces multiple outputs, make each of them available by its own name\n",
           "    if isinstance(func.output_name, tuple) and not isinstance(output_name, tuple):\n        # Function produces multiple outputs, make each of them available by its own name\n", ("C02.3-routing",), why="original F10"),
    Mutant("unused-test-dropped", B, "        if None not in used_parameters and (\n            unused := flat_scope_kwargs.keys() - set(used_parameters)\n        ):", "        if False and (\n            unused := flat_scope_kwargs.keys() - set(used_parameters)\n        ):", ("C02.4-surplus",)),
    Mutant("positional-function-use", B, "        func = self.output_to_func[output_name]\n        assert func.parameters is not None\n\n        cache = self._current_cache()", "        func = self.output_to_func[output_name]\n        assert func.parameters is not None\n        _first = self.functions[0]\n\n        cache = self._current_cache()", ("C02.5-order-free",)),
    Mutant("update-defaults-own-cache-only", PF, "            self._defaults = dict(self._defaults, **defaults)\n        self._clear_internal_cache()\n", "            self._defaults = dict(self._defaults, **defaults)\n        clear_cached_properties(self, PipeFunc)\n", ("C02.6-invalidate",), why="seeded C02/3"),
    Mutant("update-bound-no-clear", PF, "            self._bound = dict(self._bound, **bound)\n        self._clear_internal_cache()\n", "            self._bound = dict(self._bound, **bound)\n", ("C02.6-invalidate",)),
    Mutant("clear-skips-pipelines", PF, "        for pipeline in self._pipelines:\n            pipeline._clear_internal_cache()\n", "", ("C02.6-invalidate",)),
    Mutant("drop-no-clear", B, "            self.drop(f=f)\n        self._clear_internal_cache()\n        self._validate()\n\n    def replace", "            self.drop(f=f)\n        self._validate()\n\n    def replace", ("C02.6-invalidate",)),
    Mutant("call-drops-kwargs", B, "        return self.run(__output_name__, kwargs=kwargs)\n", "        return self.run(__output_name__, kwargs={k: v for k, v in kwargs.items() if v is not None})\n", ("C02.7-entry",)),
    Mutant("twin-run-rename-local", B, "        start_time = time.perf_counter()\n        r = _execute_func(func, func_args, self.lazy)\n", "        start_time = time.perf_counter()  # timing for the hybrid cache\n        r = _execute_func(func, func_args, self.lazy)\n", twin=True),
]
