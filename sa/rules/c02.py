"""C02 - calling a pipeline equals composing its functions along the DAG (structural clauses).

  1 precedence  bound > supplied > upstream output > default, identically in Pipeline._get_func_args,
                map._run._func_kwargs and PipeFunc.__call__ (each arm reads the container it tested)
  2 once        in Pipeline._run the only execution (_execute_func) is dominated by the membership memo test and by
                _get_func_args, and every normal path from it passes _update_all_results; run() seeds the memo
                with the supplied keywords
  3 routing     for a tuple output every single name is stored on every path (readers index by single names)
  4 surplus     every normal return of run() is dominated by the unused-keyword test
  5 order-free  no positional use of the function list in the evaluation machinery
  6 invalidate  every mutator of PipeFunc / Pipeline state reaches _clear_internal_cache (which also clears the owning
                pipelines), so cached views (defaults, parameters, graph) never outlive the state they were built from
  7 entry       pipeline(...), Pipeline.func(...)(...) and call_full_output all funnel into Pipeline.run with the kwargs
"""

from __future__ import annotations

import ast

from ..cfg import ENTRY, EXIT
from ..loader import AnalysisError, FuncInfo, dotted, norm, walk_no_nested
from ..report import Ctx
from ..selftest import Mutant

PROP = "C02"
BASE = "pipefunc._pipeline._base"
EXPLANATION = (
    "Static analysis: the argument-precedence chains of the three sibling implementations are extracted (membership "
    "tests of if/elif arms, operands of the dict merge) and compared with the required order; CFG dominance and "
    "must-pass-through queries on Pipeline._run and Pipeline.run; a path rule for name routing of tuple outputs; a "
    "who-uses-positions scan of the function list; and a must-pass-through rule from every state mutation to cache invalidation."
)
TRUSTED = ["CPython ast parser", "dict merge `a | b | c`: right-most operand wins"]
DECLINED = [
    "that the composed value equals the mathematical composition (value-level)",
    "correctness of _compute_arg_mapping / arg_combinations (combinatorial enumeration)",
]

CLASS_OF = {
    "func._bound": "BOUND", "self._bound": "BOUND",
    "flat_scope_kwargs": "SUPPLIED", "run_info.inputs": "SUPPLIED", "kwargs": "SUPPLIED",
    "self.output_to_func": "UPSTREAM", "run_info.all_output_names": "UPSTREAM",
    "self.defaults": "DEFAULT", "run_info.defaults": "DEFAULT",
}
ORDER = ["BOUND", "SUPPLIED", "UPSTREAM", "DEFAULT"]


def _chain(loop: ast.For) -> list[tuple[str, ast.If]]:
    """(tested container text, If node) for the if/elif chain that starts the loop body."""
    first = next((s for s in loop.body if isinstance(s, ast.If)), None)
    out = []
    cur = first
    while cur is not None:
        test = cur.test
        cont = None
        cmp_ = test.values[0] if isinstance(test, ast.BoolOp) else test
        if isinstance(cmp_, ast.Compare) and len(cmp_.ops) == 1 and isinstance(cmp_.ops[0], ast.In):
            cont = norm(cmp_.comparators[0])
        out.append((cont or f"?{norm(test)[:40]}", cur))
        nxt = cur.orelse
        cur = nxt[0] if len(nxt) == 1 and isinstance(nxt[0], ast.If) else None
        if cur is None and nxt:
            out.append(("<else>", ast.If(test=ast.Constant(True), body=nxt, orelse=[])))
    return out


def _precedence(ctx: Ctx, fn: FuncInfo, var_hint: str) -> None:
    loops = [s for s in walk_no_nested(fn.node) if isinstance(s, ast.For) and norm(s.iter) == "func.parameters"]
    if not loops:
        raise AnalysisError(f"{fn.qualname}: loop over func.parameters not found")
    loop = loops[0]
    ch = _chain(loop)
    classes = [CLASS_OF.get(c, c) for c, _ in ch if c != "<else>"]
    ok = classes == ORDER
    ctx.add("1-precedence", fn, loop, ok, "bound > supplied > upstream output > default" if ok else f"argument resolution order is {classes}, required {ORDER}", key="chain-order")
    p = norm(loop.target)
    for cont, node in ch:
        if cont == "<else>":
            ok = any(isinstance(x, ast.Raise) for st in node.body for x in ast.walk(st))
            ctx.add("1-precedence", fn, node.body[0], ok, "an unresolvable argument raises" if ok else "an unresolvable argument is silently accepted", key="else-raises")
            continue
        if CLASS_OF.get(cont) == "UPSTREAM":
            body = " ".join(norm(s) for s in node.body)
            ok = ("self._run(" in body and f"output_name={p}" in body) or f"_load_from_store({p}, store)" in body
            ctx.add("1-precedence", fn, node, ok, "upstream value comes from evaluating / loading that output" if ok else "the upstream arm does not evaluate the producing function", key="arm UPSTREAM")
            continue
        reads = [norm(s.value) for s in node.body if isinstance(s, ast.Assign)]
        ok = any(r == f"{cont}[{p}]" for r in reads)
        ctx.add("1-precedence", fn, node, ok, f"`{cont}` arm reads {cont}[{p}]" if ok else f"the arm testing `{cont}` takes its value from {reads}", key=f"arm {CLASS_OF.get(cont, cont)}")


def check(ctx: Ctx) -> None:  # noqa: C901, PLR0912, PLR0915
    P = ctx.prog
    # ------------------------------------------------------------ 1 precedence
    _precedence(ctx, P.func(f"{BASE}.Pipeline._get_func_args"), "arg")
    _precedence(ctx, P.func("pipefunc.map._run._func_kwargs"), "p")
    call = P.func("pipefunc._pipefunc.PipeFunc.__call__")
    merges = [s for s in walk_no_nested(call.node) if isinstance(s, ast.Assign) and isinstance(s.value, ast.BinOp) and isinstance(s.value.op, ast.BitOr)]
    if not merges:
        raise AnalysisError("PipeFunc.__call__: dict merge not found")
    ops: list[str] = []

    def flat(e: ast.AST) -> None:
        if isinstance(e, ast.BinOp) and isinstance(e.op, ast.BitOr):
            flat(e.left)
            flat(e.right)
        else:
            ops.append(norm(e))

    flat(merges[0].value)
    classes = [CLASS_OF.get(o, o) for o in ops]
    ok = classes == ["DEFAULT", "SUPPLIED", "BOUND"]
    ctx.add("1-precedence", call, merges[0], ok, "defaults | kwargs | bound: bound wins, then supplied, then defaults" if ok else f"merge order is {classes}: precedence differs from the pipeline's", key="call-merge")
    inv = [s for s in walk_no_nested(call.node) if isinstance(s, ast.Assign) and "_inverse_renames" in norm(s.value)]
    ok = bool(inv) and inv[0].lineno > merges[0].lineno and "self._inverse_renames.get(k, k): v" in norm(inv[0].value)
    ctx.add("1-precedence", call, inv[0] if inv else call.node, ok, "renamed names are mapped back after merging" if ok else "inverse renames are not applied to the merged kwargs", key="inverse-renames")

    # ------------------------------------------------------------ 2 once
    run_ = P.func(f"{BASE}.Pipeline._run")
    cfg = ctx.cfg(run_)

    def has_call(st: ast.AST, name: str) -> bool:
        from ..cfg import header_parts

        return any(isinstance(c, ast.Call) and dotted(c.func).rsplit(".", 1)[-1] == name for part in header_parts(st) for c in ast.walk(part))

    exe = cfg.nodes(lambda s: has_call(s, "_execute_func"))
    if len(exe) != 1:
        raise AnalysisError(f"Pipeline._run: expected exactly one _execute_func call, found {len(exe)}")
    ctx.add("2-once", run_, cfg.stmt[exe[0]], True, "single execution site in _run", key="single-site")
    memo = [n for n in cfg.nodes(lambda s: isinstance(s, ast.If)) if any(isinstance(r, ast.Return) and r.value is not None and norm(r.value) == "all_results[output_name]" for r in cfg.stmt[n].body)
            and "all_results" in norm(cfg.stmt[n].test) and "return_now" not in norm(cfg.stmt[n].test) and "result_from_cache" not in norm(cfg.stmt[n].test)]
    ok = False
    why = "no memo test `output_name in all_results` before execution"
    if memo:
        t = cfg.stmt[memo[0]].test
        is_member = isinstance(t, ast.Compare) and len(t.ops) == 1 and isinstance(t.ops[0], ast.In) and norm(t.left) == "output_name" and norm(t.comparators[0]) == "all_results"
        dom = cfg.dominates(memo[0], exe[0])
        ok = is_member and dom
        why = "memo membership test dominates the execution" if ok else ("the memo test is not a membership test (a stored None/falsy result is recomputed)" if not is_member else "the memo test does not dominate the execution")
    ctx.add("2-once", run_, cfg.stmt[memo[0]] if memo else run_.node, ok, why, key="memo-test")
    gfa = cfg.nodes(lambda s: has_call(s, "_get_func_args"))
    ok = bool(gfa) and all(cfg.dominates(g, exe[0]) for g in gfa)
    ctx.add("2-once", run_, cfg.stmt[gfa[0]] if gfa else run_.node, ok, "arguments (and thereby all dependencies) are resolved before execution" if ok else "_execute_func is reachable without _get_func_args", key="deps-first")
    upd = set(cfg.nodes(lambda s: has_call(s, "_update_all_results")))
    ok = bool(upd) and cfg.must_pass(exe[0], EXIT, upd, normal_only=True)
    ctx.add("2-once", run_, cfg.stmt[exe[0]], ok, "every normal path from the execution stores the result in the memo" if ok else "a path from _execute_func to the return skips _update_all_results (the function would run again)", key="memo-store")
    rets = [r for r in walk_no_nested(run_.node) if isinstance(r, ast.Return) and r.value is not None]
    ok = all(norm(r.value) == "all_results[output_name]" for r in rets)
    ctx.add("2-once", run_, rets[-1], ok, "_run always answers from the memo" if ok else "_run returns something other than the memoised value", key="returns-memo")
    rn = P.func(f"{BASE}.Pipeline.run")
    seed = [s for s in walk_no_nested(rn.node) if isinstance(s, (ast.Assign, ast.AnnAssign)) and norm(s.targets[0] if isinstance(s, ast.Assign) else s.target) == "all_results"]
    ok = bool(seed) and norm(seed[0].value) == "flat_scope_kwargs.copy()"
    ctx.add("2-once", rn, seed[0] if seed else rn.node, ok, "the memo starts from the supplied keywords: a supplied intermediate replaces its producer" if ok else "run() no longer seeds the memo with the supplied keywords", key="seed")
    gfa_fn = P.func(f"{BASE}.Pipeline._get_func_args")
    rec = [c for c in ast.walk(gfa_fn.node) if isinstance(c, ast.Call) and norm(c.func) == "self._run"]
    ok = bool(rec) and all({k.arg for k in c.keywords} >= {"output_name", "flat_scope_kwargs", "all_results", "full_output", "used_parameters"} and
                           all(norm(k.value) == k.arg for k in c.keywords if k.arg != "output_name") for c in rec)
    ctx.add("2-once", gfa_fn, rec[0] if rec else gfa_fn.node, ok, "the recursion shares the one memo / kwargs of this call" if ok else "the recursive _run call does not share the memo of the current evaluation", key="recursion-shares-memo")

    # ------------------------------------------------------------ 3 routing
    ur = P.func(f"{BASE}._update_all_results")
    top = [s for s in ur.node.body if isinstance(s, ast.If)]
    ok, why = False, "_update_all_results has no tuple branch"
    if top:
        t = norm(top[0].test)
        plain = t == "isinstance(func.output_name, tuple)"
        loops = [s for s in top[0].body if isinstance(s, ast.For) and norm(s.iter) == "func.output_name"]
        stores = bool(loops) and any(isinstance(a, ast.Assign) and norm(a.targets[0]) == f"all_results[{norm(loops[0].target)}]" for a in ast.walk(loops[0]))
        ok = plain and stores
        why = "every name of a tuple output is stored, whatever was requested" if ok else (
            f"single names are only stored under `{t}`: when the tuple itself is requested, readers indexing by name (NestedPipeFunc wrapper, full_output) fail" if not plain else "the per-name store is missing")
        els = top[0].orelse
        ok2 = bool(els) and any(norm(s) == "all_results[func.output_name] = r" for s in els)
        ctx.add("3-routing", ur, top[0], ok2, "single outputs are stored under their name" if ok2 else "the single-output store is missing", key="single-store")
    ctx.add("3-routing", ur, top[0] if top else ur.node, ok, why, key="all-names")
    dp = P.func("pipefunc._pipefunc._default_output_picker")
    ok = norm(dp.node.body[-1]) == "return output[output_name.index(name)]"
    ctx.add("3-routing", dp, dp.node, ok, "default picker selects by position of the name" if ok else "default output picker no longer maps a name to its position", key="default-picker")
    nw = P.func("pipefunc._pipefunc._NestedFuncWrapper.__call__")
    ok = "result_dict[self.output_name]" in norm(nw.node) and "tuple((result_dict[name] for name in self.output_name))" in norm(nw.node)
    ctx.add("3-routing", nw, nw.node, ok, "nested wrapper reads the results by single name, in output_name order" if ok else "nested wrapper no longer reads by name", key="nested-reader")

    # ------------------------------------------------------------ 4 surplus
    cfg = ctx.cfg(rn)
    tests = cfg.nodes(lambda s: isinstance(s, ast.If) and "unused" in norm(s.test) and "used_parameters" in norm(s.test))
    ok, why = False, "run() has no unused-keyword test"
    if tests:
        st = cfg.stmt[tests[0]]
        raises = any(isinstance(x, ast.Raise) and "UnusedParametersError" in norm(x) for x in ast.walk(st))
        final = [n for n in cfg.nodes(lambda s: isinstance(s, ast.Return))]
        dom = all(cfg.dominates(tests[0], r) for r in final)
        cond = norm(st.test)
        shape_ok = cond.startswith("None not in used_parameters and") and "flat_scope_kwargs.keys() - set(used_parameters)" in cond
        ok = raises and dom and shape_ok
        why = "surplus keywords raise UnusedParametersError before any return (only a cache hit bypasses)" if ok else "the unused-keyword rejection can be bypassed or was weakened"
    ctx.add("4-surplus", rn, cfg.stmt[tests[0]] if tests else rn.node, ok, why, key="unused-test")
    used = [c for c in ast.walk(gfa_fn.node) if isinstance(c, ast.Call) and norm(c.func) == "used_parameters.add"]
    ok = bool(used) and norm(used[0].args[0]) == norm([s for s in walk_no_nested(gfa_fn.node) if isinstance(s, ast.For)][0].target)
    ctx.add("4-surplus", gfa_fn, used[0] if used else gfa_fn.node, ok, "every resolved parameter is recorded as used" if ok else "_get_func_args no longer records the parameters it consumed", key="records-used")
    oc = [s for s in rn.node.body if isinstance(s, ast.If) and norm(s.test) == "output_name in kwargs"]
    ctx.add("4-surplus", rn, oc[0] if oc else rn.node, bool(oc), "supplying the requested output itself is rejected" if oc else "run() accepts the requested output as a keyword", key="output-in-kwargs")

    # ------------------------------------------------------------ 5 order-free
    n5 = 0
    for m in ("pipefunc._pipeline._base", "pipefunc._pipeline._cache", "pipefunc._pipeline._validation", "pipefunc.map._run", "pipefunc.map._shapes", "pipefunc.map._prepare"):
        for fn in P.functions_in(m):
            for x in walk_no_nested(fn.node):
                pos = None
                if isinstance(x, ast.Subscript) and norm(x.value).endswith(".functions") and not isinstance(x.slice, ast.Slice):
                    pos = x
                if isinstance(x, ast.Call) and isinstance(x.func, ast.Attribute) and x.func.attr == "index" and norm(x.func.value).endswith(".functions"):
                    pos = x
                if isinstance(x, ast.Call) and dotted(x.func) == "enumerate" and x.args and norm(x.args[0]).endswith(".functions"):
                    pos = x
                if pos is not None:
                    n5 += 1
                    ctx.add("5-order-free", fn, pos, False, f"`{norm(pos)}` uses the position of a function in the listing: results depend on listing order")
    ctx.add("5-order-free", BASE, "", n5 == 0, "no positional use of `.functions` in the evaluation machinery", key="scan")

    # ------------------------------------------------------------ 6 invalidate
    _invalidate(ctx)

    # ------------------------------------------------------------ 7 entry
    pc = P.func(f"{BASE}.Pipeline.__call__")
    ok = norm(pc.node.body[-1]) == "return self.run(__output_name__, kwargs=kwargs)"
    ctx.add("7-entry", pc, pc.node, ok, "pipeline(...) = run(output, kwargs=kwargs)" if ok else "Pipeline.__call__ no longer forwards to run with all kwargs", key="call")
    fc = P.func(f"{BASE}._PipelineAsFunc.__call__")
    ok = norm(fc.node.body[-1]) == "return self.pipeline.run(output_name=self.output_name, kwargs=kwargs)"
    ctx.add("7-entry", fc, fc.node, ok, "Pipeline.func(...)(...) = run(output, kwargs=kwargs)" if ok else "_PipelineAsFunc.__call__ changed", key="func-call")
    fo = P.func(f"{BASE}._PipelineAsFunc.call_full_output")
    ok = norm(fo.node.body[-1]) == "return self.pipeline.run(self.output_name, full_output=True, kwargs=kwargs)"
    ctx.add("7-entry", fo, fo.node, ok, "call_full_output = run(..., full_output=True)" if ok else "call_full_output changed", key="full-output")
    ret = [r for r in walk_no_nested(rn.node) if isinstance(r, ast.Return)][-1]
    ok = norm(ret.value) == "all_results if full_output else all_results[output_name]"
    ctx.add("7-entry", rn, ret, ok, "full_output returns the memo of this very evaluation" if ok else "run() return value changed", key="run-return")


MUTATED_FIELDS = {"_defaults", "_bound", "_renames", "mapspec"}


def _invalidate(ctx: Ctx) -> None:
    P = ctx.prog
    pf = P.cls("pipefunc._pipefunc.PipeFunc")
    n = 0
    for name, fn in pf.methods.items():
        if name in ("__init__", "__setstate__", "copy") or fn.is_property:
            continue
        cfg = ctx.cfg(fn)
        writes = cfg.nodes(lambda s: isinstance(s, ast.Assign) and any(isinstance(t, ast.Attribute) and isinstance(t.value, ast.Name) and t.value.id == "self" and t.attr in MUTATED_FIELDS for t in s.targets))
        if not writes:
            continue
        clears = set(cfg.nodes(lambda s: isinstance(s, ast.Expr) and isinstance(s.value, ast.Call) and norm(s.value.func) == "self._clear_internal_cache"))
        for w in writes:
            n += 1
            ok = bool(clears) and cfg.must_pass(w, EXIT, clears, normal_only=True)
            ctx.add("6-invalidate", fn, cfg.stmt[w], ok, "state change is followed by _clear_internal_cache on every path" if ok else
                    "state is changed but cached views (own and of the owning pipelines: defaults, parameters, graph) are not invalidated on every path", key=f"{name}: {norm(cfg.stmt[w].targets[0])}")
    ctx.floor("6-invalidate.pipefunc", n, 6)
    ci = pf.methods["_clear_internal_cache"]
    src = norm(ci.node)
    ok = "clear_cached_properties(self, PipeFunc)" in src and "for pipeline in self._pipelines" in src and "pipeline._clear_internal_cache()" in src
    ctx.add("6-invalidate", ci, ci.node, ok, "clears own cached properties and those of every owning pipeline" if ok else "PipeFunc._clear_internal_cache no longer reaches the owning pipelines", key="clear-reaches-pipelines")
    pl = P.cls(f"{BASE}.Pipeline")
    pci = pl.methods["_clear_internal_cache"]
    ok = "clear_cached_properties(self)" in norm(pci.node)
    ctx.add("6-invalidate", pci, pci.node, ok, "Pipeline clears all its cached properties" if ok else "Pipeline._clear_internal_cache changed", key="pipeline-clear")
    m = 0
    for name, fn in pl.methods.items():
        if name in ("__init__",) or fn.is_property:
            continue
        cfg = ctx.cfg(fn)
        muts = cfg.nodes(lambda s: isinstance(s, ast.Expr) and isinstance(s.value, ast.Call) and isinstance(s.value.func, ast.Attribute) and norm(s.value.func.value) == "self.functions" and s.value.func.attr in ("append", "remove", "pop", "insert", "extend", "clear")
                         or (isinstance(s, ast.Expr) and isinstance(s.value, ast.Call) and isinstance(s.value.func, ast.Attribute) and s.value.func.attr in ("update_defaults", "update_renames", "update_scope", "update_bound") and norm(s.value.func.value) == "f"))
        if not muts:
            continue
        clears = set(cfg.nodes(lambda s: isinstance(s, ast.Expr) and isinstance(s.value, ast.Call) and norm(s.value.func) in ("self._clear_internal_cache", "self.drop", "self.add")))
        for w in muts:
            m += 1
            ok = bool(clears) and cfg.must_pass(w, EXIT, clears, normal_only=True)
            ctx.add("6-invalidate", fn, cfg.stmt[w], ok, "pipeline mutation is followed by cache invalidation on every path" if ok else "the pipeline is mutated without invalidating its cached views", key=f"{name}: {norm(cfg.stmt[w])[:60]}")
    ctx.floor("6-invalidate.pipeline", m, 5)
    cc = P.func("pipefunc._utils.clear_cached_properties")
    ok = "isinstance(v, functools.cached_property)" in norm(cc.node) and "delattr(obj, k)" in norm(cc.node) and "cls = cls.__base__" in norm(cc.node)
    ctx.add("6-invalidate", cc, cc.node, ok, "every cached_property of the class and its bases is dropped" if ok else "clear_cached_properties no longer drops every cached_property up the MRO", key="clear-impl")


B, R, PF = "pipefunc/_pipeline/_base.py", "pipefunc/map/_run.py", "pipefunc/_pipefunc.py"
MUTANTS = [
    Mutant("swap-arms-get-func-args", B, "            if arg in func._bound:\n                value = func._bound[arg]\n            elif arg in flat_scope_kwargs:\n                value = flat_scope_kwargs[arg]\n",
           "            if arg in flat_scope_kwargs:\n                value = flat_scope_kwargs[arg]\n            elif arg in func._bound:\n                value = func._bound[arg]\n", ("C02.1-precedence",)),
    Mutant("supplied-from-memo", B, "            elif arg in flat_scope_kwargs:\n                value = flat_scope_kwargs[arg]\n", "            elif arg in all_results:\n                value = all_results[arg]\n", ("C02.1-precedence",), why="seeded C02/1"),
    Mutant("map-default-before-output", R, "        elif p in run_info.all_output_names:\n            kwargs[p] = _load_from_store(p, store).value\n        elif p in run_info.defaults and p not in run_info.all_output_names:\n            kwargs[p] = run_info.defaults[p]\n",
           "        elif p in run_info.defaults:\n            kwargs[p] = run_info.defaults[p]\n        elif p in run_info.all_output_names:\n            kwargs[p] = _load_from_store(p, store).value\n", ("C02.1-precedence",)),
    Mutant("call-merge-order", PF, "        kwargs = self.defaults | kwargs | self._bound\n", "        kwargs = self.defaults | self._bound | kwargs\n", ("C02.1-precedence",)),
    Mutant("memo-get-not-none", B, "        if output_name in all_results:\n            return all_results[output_name]\n        func = self.output_to_func[output_name]",
           "        if all_results.get(output_name) is not None:\n            return all_results[output_name]\n        func = self.output_to_func[output_name]", ("C02.2-once",), why="seeded C02/2"),
    Mutant("no-memo-test", B, "        if output_name in all_results:\n            return all_results[output_name]\n        func = self.output_to_func[output_name]", "        func = self.output_to_func[output_name]", ("C02.2-once",)),
    Mutant("run-does-not-seed", B, "all_results: dict[OUTPUT_TYPE, Any] = flat_scope_kwargs.copy()  # type: ignore[assignment]", "all_results: dict[OUTPUT_TYPE, Any] = {}", ("C02.2-once",)),
    Mutant("routing-original-F10", B, "    if isinstance(func.output_name, tuple):\n        # Function produces multiple outputs, make each of them available by its own name\n",
           "    if isinstance(func.output_name, tuple) and not isinstance(output_name, tuple):\n        # Function produces multiple outputs, make each of them available by its own name\n", ("C02.3-routing",), why="original F10"),
    Mutant("unused-test-dropped", B, "        if None not in used_parameters and (\n            unused := flat_scope_kwargs.keys() - set(used_parameters)\n        ):", "        if False and (\n            unused := flat_scope_kwargs.keys() - set(used_parameters)\n        ):", ("C02.4-surplus",)),
    Mutant("positional-function-use", B, "        func = self.output_to_func[output_name]\n        assert func.parameters is not None\n\n        cache = self._current_cache()", "        func = self.output_to_func[output_name]\n        assert func.parameters is not None\n        _first = self.functions[0]\n\n        cache = self._current_cache()", ("C02.5-order-free",)),
    Mutant("update-defaults-own-cache-only", PF, "            self._defaults = dict(self._defaults, **defaults)\n        self._clear_internal_cache()\n", "            self._defaults = dict(self._defaults, **defaults)\n        clear_cached_properties(self, PipeFunc)\n", ("C02.6-invalidate",), why="seeded C02/3"),
    Mutant("update-bound-no-clear", PF, "            self._bound = dict(self._bound, **bound)\n        self._clear_internal_cache()\n", "            self._bound = dict(self._bound, **bound)\n", ("C02.6-invalidate",)),
    Mutant("clear-skips-pipelines", PF, "        for pipeline in self._pipelines:\n            pipeline._clear_internal_cache()\n", "", ("C02.6-invalidate",)),
    Mutant("drop-no-clear", B, "            self.drop(f=f)\n        self._clear_internal_cache()\n        self._validate()\n\n    def replace", "            self.drop(f=f)\n        self._validate()\n\n    def replace", ("C02.6-invalidate",)),
    Mutant("call-drops-kwargs", B, "        return self.run(__output_name__, kwargs=kwargs)\n", "        return self.run(__output_name__, kwargs={k: v for k, v in kwargs.items() if v is not None})\n", ("C02.7-entry",)),
    Mutant("twin-run-rename-local", B, "        start_time = time.perf_counter()\n        r = _execute_func(func, func_args, self.lazy)\n", "        start_time = time.perf_counter()  # timing for the hybrid cache\n        r = _execute_func(func, func_args, self.lazy)\n", twin=True),
]
