"""C03 - map results and call counts are independent of executor, storage and schedule (structural clauses).

  1 mirror     the async driver functions are the sync ones after normalisation (await / _async / wrap_future),
               except for the declared differences
  2 barrier    every future of a generation is resolved before the next generation is submitted; nothing in
               map/_run.py consumes futures in completion order (as_completed / asyncio.wait / FIRST_*)
  3 placement  results are paired with indices by submission order: the submitted index list and the first operand of
               zip(..., outputs_list) are the same never-mutated `missing` list, collected by order-preserving means
  4 one-dump   the dump-ownership guard of _update_array is a truth table in which, without force_dump, exactly one of
               the two call contexts (worker / parent) dumps for either kind of storage; force_dump only from adaptive
  5 shared     a storage class that lets workers dump has cross-process backing which no method rebinds
  6 executor   _executor_for_func returns or raises on every path, own entry first, then the '' default
  8 no-shared-write  element tasks never store into a dict/list that the per-element partial binds once for the whole map
  9 no-process-memo  nothing read from run-folder files is kept in module-level containers / lru_caches
  7 picklable-state  every attribute in which PipeFunc keeps the user's function object is pickled by value (process pools)
"""

from __future__ import annotations

import ast
import re
import itertools

from ..cfg import ENTRY, EXIT
from ..effects import FS_WRITE
from ..flow import Defs, Scope, bool_atoms, bool_eval, guard_facts, inline_predicates, iterations, reordered
from ..loader import AnalysisError, FuncInfo, dotted, norm, walk_no_nested
from ..report import Ctx
from ..selftest import Mutant
from .c04 import proxy_fields

PROP = "C03"
TECHNIQUE = "static analysis: sync/async sibling differ over resolved callees + CFG barrier rules + truth-table evaluation of the dump-ownership condition + manager-proxy field taint + completion-order primitive scan + effect/taint rules for state shared by element tasks (partial-bound containers, process-global memos) + picklable-state rule for what PipeFunc keeps of the user function + sync/async parameter-forwarding agreement + stateless-read rule for shared storage objects (argument-dependent stores to self) + submitted callables vs _dump_single_output reachability + insertion-order kind for dict values + done-callback stores vs the generation barrier + one backing container per array + tables not keyed by __name__ + no-store-snapshot rule for storage objects (memoised listings / masks) + no lock/file/executor field on objects that cross the process boundary + fixpoint expansion of helpers that only one twin calls"
RUN = "pipefunc.map._run"
EXPLANATION = (
    "Static analysis of pipefunc/map/_run.py and the storage classes: a sibling differ over the sync/async driver "
    "pairs (normalised call sequences with argument texts), CFG post-dominance for the generation barrier, a "
    "who-may-call rule for completion-order primitives, def-use identity of the submitted and zipped index list, an "
    "exhaustive truth-table evaluation of the source expression guarding the element dump, and a field-rebinding rule "
    "for proxy-backed storages."
)
TRUSTED = ["CPython ast parser", "asyncio.gather and list comprehensions preserve argument order", "Future.result() blocks until that future is done"]
DECLINED = [
    "equality of results across real schedules and pools (needs execution)",
    "'each function invoked exactly once per index' as a count over runs; pickling behaviour of user functions",
]

FORBIDDEN = {"as_completed", "FIRST_COMPLETED", "FIRST_EXCEPTION", "ALL_COMPLETED"}
PAIRS = [("_run_and_process_generation", "_run_and_process_generation_async"), ("_process_generation", "_process_generation_async"), ("_process_task", "_process_task_async")]
# calls that may appear only on the async side: reason
ASYNC_ONLY = {
    "maybe_finalize_slurm_executors": "slurm executors are finalised once per generation in async mode",
    "asyncio.get_event_loop": "needed to wrap concurrent futures",
}


IGNORED_CALLEES = {"isinstance", "len", "tuple", "list", "append", "extend", "enumerate", "zip", "range", "dict", "set", "items", "values", "keys", "get"}


def _direct(ctx: Ctx, fn: FuncInfo) -> tuple[set[str], dict[str, FuncInfo]]:
    names, impl = set(), {}
    for c in [c for c in ast.walk(fn.node) if isinstance(c, ast.Call)]:
        name = dotted(c.func).rsplit(".", 1)[-1] if dotted(c.func) else (c.func.attr if isinstance(c.func, ast.Attribute) else "")
        if not name or name in IGNORED_CALLEES or name in {k.rsplit(".", 1)[-1] for k in ASYNC_ONLY}:
            continue
        for callee in ctx.cg.resolve_callable(fn, c.func):
            if callee.module.name == fn.module.name and callee.name.startswith("_"):
                impl[name] = callee
        names.add(name)
    return names, impl


def _canon(name: str) -> str:
    name = name[:-6] if name.endswith("_async") else name
    return "RESOLVE" if name in ("gather", "_result", "wrap_future", "run_in_executor", "result") else name


def _callees(ctx: Ctx, fn: FuncInfo, other: FuncInfo) -> set[str]:
    """Canonical names of the steps `fn` performs, see `_steps`."""
    return _steps(ctx, fn, other)[0]


def _steps(ctx: Ctx, fa: FuncInfo, fb: FuncInfo) -> tuple[set[str], set[str]]:
    """Canonical names of the steps the two siblings perform.  A private helper of the module that only one side calls is replaced
    by the steps it performs itself, alternately on either side until nothing is left to expand: the twins may cut the same work
    into helpers differently (one calls `_process_generation`, the other has that loop in its own body)."""
    def direct(fn: FuncInfo) -> dict[str, FuncInfo | None]:
        names, impl = _direct(ctx, fn)
        out: dict[str, FuncInfo | None] = {}
        for n in names:
            c = _canon(n)
            out[c] = impl.get(n) if c != "RESOLVE" and out.get(c) is None else out.get(c)
        return out

    A, B = direct(fa), direct(fb)
    seen: set[str] = {fa.qualname, fb.qualname}
    for _ in range(8):
        changed = False
        for mine, theirs in ((A, B), (B, A)):
            only = [n for n, impl in mine.items() if n not in theirs and impl is not None and impl.qualname not in seen]
            for n in only:
                impl = mine.pop(n)
                seen.add(impl.qualname)
                for k, v in direct(impl).items():
                    mine.setdefault(k, v)
                changed = True
        if not changed:
            break
    return set(A), set(B)


def rule_mirror(ctx: Ctx) -> None:
    P = ctx.prog
    P.func(f"{RUN}.{PAIRS[0][0]}"), P.func(f"{RUN}.{PAIRS[0][1]}")  # the outermost pair is the anchor
    for a, b in PAIRS:
        if f"{RUN}.{a}" not in P.functions or f"{RUN}.{b}" not in P.functions:
            # an inner twin was merged into its caller: its steps are compared through the expansion of the enclosing pair
            ctx.add("1-mirror", P.func(f"{RUN}.{PAIRS[0][1]}"), P.func(f"{RUN}.{PAIRS[0][1]}").node, True, f"({a}, {b}) is not a pair of functions on this tree; covered by the enclosing pair", key=f"mirror {a}")
            continue
        fa, fb = P.func(f"{RUN}.{a}"), P.func(f"{RUN}.{b}")
        sa, sb = _steps(ctx, fa, fb)
        diff = sa ^ sb
        ctx.add("1-mirror", fb, fb.node, not diff, f"{b} uses the same steps as {a} ({len(sa)} callees)" if not diff else f"{b} and {a} do not perform the same steps: {sorted(diff)} on one side only", key=f"mirror {a}")
        ok = isinstance(fb.node, ast.AsyncFunctionDef) and not isinstance(fa.node, ast.AsyncFunctionDef)
        ctx.add("1-mirror", fb, fb.node, ok, "async def / def" if ok else "the pair is no longer (def, async def)", key=f"kinds {a}")
        # ... and hands its own parameters on to the shared steps in the same way (a parameter the sync twin forwards and the async
        # twin keeps to itself is silently replaced by the callee's default on the async path only)
        from ..flow import bind_args

        def forwards(fn: FuncInfo) -> dict[tuple[str, str], str]:
            out: dict[tuple[str, str], str] = {}
            for s_ in ctx.cg.sites.get(fn.qualname, []):
                if s_.kind != "call":
                    continue
                for callee in s_.callees:
                    if not callee.module.name.startswith("pipefunc"):
                        continue
                    for prm, a_ in bind_args(s_.node, callee).items():
                        if isinstance(a_, ast.Name) and a_.id in fn.param_names():
                            out[(_canon(callee.name), prm)] = a_.id
            return out

        fw_a, fw_b = forwards(fa), forwards(fb)
        steps_b = {k[0] for k in fw_b}
        lost = sorted((k, v) for k, v in fw_a.items() if k not in fw_b and v in fb.param_names() and k[0] in steps_b | {_canon(n) for n in _direct(ctx, fb)[0]})
        ctx.add("1-mirror", fb, fb.node, not lost, f"{b} forwards its parameters to the shared steps like {a} ({len(fw_a)} forwarded)" if not lost else
                f"{a} passes its `{lost[0][1]}` on to {lost[0][0][0]}({lost[0][0][1]}=...), {b} does not: on the async path the callee's default is used instead and map_async no longer behaves like map", key=f"forwards {a}")
    rm, rma = P.func(f"{RUN}.run_map"), P.func(f"{RUN}.run_map_async")
    inner = P.func(f"{RUN}.run_map_async._run_pipeline")

    def prepared_names(fn: FuncInfo) -> dict[str, str]:
        """Local names that hold (a part of) the value prepare_run(...) returned -> a canonical text for that part: the tuple is
        unpacked positionally in one driver and read by field name (a NamedTuple) in the other."""
        prep = P.functions.get("pipefunc.map._prepare.prepare_run")
        fields: list[str] = []
        if prep is not None and prep.node.returns is not None:
            q = P.resolve_name(prep.module, dotted(prep.node.returns) or norm(prep.node.returns), prep)
            ci = P.classes.get(q) if q else None
            if ci is not None:
                fields = list(ci.fields)
        out: dict[str, str] = {}
        scope_nodes = [fn.node] + ([fn.parent.node] if fn.parent is not None else [])
        for root in scope_nodes:
            for a_ in ast.walk(root):
                if isinstance(a_, ast.Assign) and isinstance(a_.value, ast.Call) and dotted(a_.value.func).rsplit(".", 1)[-1] == "prepare_run":
                    for t in a_.targets:
                        if isinstance(t, ast.Tuple):
                            for i, el in enumerate(t.elts):
                                if isinstance(el, ast.Name):
                                    out[el.id] = f"<prepared>.{fields[i] if i < len(fields) else i}"
                        elif isinstance(t, ast.Name):
                            out[t.id] = "<prepared>"
        return out

    def call_kwargs(fn: FuncInfo, name: str) -> dict[str, str] | None:
        c = [c for c in ast.walk(fn.node) if isinstance(c, ast.Call) and dotted(c.func) == name]
        if not c:
            return None
        d = Defs(fn)
        pn = {} if name == "prepare_run" else prepared_names(fn)  # the arguments OF prepare_run are the values before it ran

        def canon(v: ast.AST, depth: int = 4) -> str:
            if isinstance(v, ast.Attribute) and isinstance(v.value, ast.Name) and pn.get(v.value.id) == "<prepared>":
                return f"<prepared>.{v.attr}"
            if isinstance(v, ast.Name) and v.id in pn:
                return pn[v.id]
            if isinstance(v, ast.Name) and depth > 0 and d.unique(v.id) is not None:
                return canon(d.unique(v.id), depth - 1)  # `progress = prepared.progress`
            r = d.resolve(v)
            if isinstance(r, ast.Name) and r.id in pn:
                return pn[r.id]
            if isinstance(r, ast.Attribute) and isinstance(r.value, ast.Name) and pn.get(r.value.id) == "<prepared>":
                return f"<prepared>.{r.attr}"
            if isinstance(r, ast.Subscript) and isinstance(r.value, ast.Name) and pn.get(r.value.id) == "<prepared>" and isinstance(r.slice, ast.Constant):
                return f"<prepared>.{r.slice.value}"
            return norm(r)

        # positional arguments are named after the callee's parameters
        callee = next((f_ for f_ in ctx.cg.resolve_callable(fn, c[0].func)), None)
        pos = [p_ for p_ in callee.param_names() if p_ not in ("self", "cls")] if callee is not None else []
        out = {pos[i]: canon(a) for i, a in enumerate(c[0].args) if i < len(pos) and not isinstance(a, ast.Starred)}
        out.update({k.arg: canon(k.value) for k in c[0].keywords if k.arg})
        return out

    ks, ka = call_kwargs(rm, "prepare_run"), call_kwargs(rma, "prepare_run")
    if ks is not None and ka is not None:
        allowed = {"parallel": ("parallel", "True"), "in_async": ("False", "True")}
        bad = [k for k in sorted(set(ks) | set(ka)) if ks.get(k) != ka.get(k) and (ks.get(k), ka.get(k)) != allowed.get(k)]
        ctx.add("1-mirror", rma, rma.node, not bad, f"both drivers forward the same {len(ks)} arguments to prepare_run (only parallel / in_async differ)" if not bad else
                f"prepare_run is called differently by the two drivers: {[(k, ks.get(k), ka.get(k)) for k in bad]}", key="prepare-args")
    else:
        ctx.add("1-mirror", rma, rma.node, None, "UNDECIDED: prepare_run call not found in both drivers", key="prepare-args")
    sig_s, sig_a = rm.param_names(), rma.param_names()
    ok = [p_ for p_ in sig_s if p_ != "parallel"] == sig_a
    ctx.add("1-mirror", rma, rma.node, ok, "same public parameters (async has no `parallel`)" if ok else f"parameter lists differ: {set(sig_s) ^ set(sig_a)}", key="signature")
    gs, ga = call_kwargs(rm, "_run_and_process_generation"), call_kwargs(inner, "_run_and_process_generation_async")
    if gs is not None and ga is not None:
        ga.pop("multi_run_manager", None)
        ctx.add("1-mirror", inner, inner.node, gs == ga, "both generation loops pass the same arguments" if gs == ga else f"generation calls differ: {sorted(set(gs.items()) ^ set(ga.items()))}", key="generation-args")


def _whole_in_order(it: dict, d: Defs) -> bool | None:
    """True: the iteration source is taken whole and in order; False: sliced / filtered / re-ordered; None: unknown."""
    src = d.resolve(it["iter"])
    if reordered(src) or isinstance(src, ast.Subscript) and isinstance(src.slice, ast.Slice) or it["filters"]:
        return False
    if any(w in norm(src) for w in ("as_completed", "wait(")):
        return False
    return True


def rule_barrier(ctx: Ctx) -> None:  # noqa: C901
    P = ctx.prog
    inner = P.func(f"{RUN}.run_map_async._run_pipeline")
    # the functions that resolve futures / submit work are found by what they do, not by name
    mod_funcs = [f_ for f_ in P.functions_in(RUN) if f_.cls is None]
    resolvers = {f_.qualname for f_ in mod_funcs if any(isinstance(c, ast.Call) and isinstance(c.func, ast.Attribute) and c.func.attr in ("result", "wrap_future") for c in ast.walk(f_.node))}
    submitters = {f_.qualname for f_ in mod_funcs if any(isinstance(c, ast.Call) and isinstance(c.func, ast.Attribute) and c.func.attr == "submit" for c in ast.walk(f_.node))}

    def reaching(f_: FuncInfo, targets: set[str]) -> list[ast.Call]:
        return [s_.node for s_ in ctx.cg.sites.get(f_.qualname, []) if any(c.qualname in targets or ctx.cg.reachable(c.qualname) & targets for c in s_.callees)]

    for a in ("_run_and_process_generation", "_run_and_process_generation_async"):
        f = P.func(f"{RUN}.{a}")
        cfg = ctx.cfg(f)
        sub_calls = [c for c in reaching(f, submitters) if c not in reaching(f, resolvers)]
        proc_calls = [c for c in reaching(f, resolvers) if c not in reaching(f, submitters)]
        sub = [n for n in (cfg.node_containing(c) for c in sub_calls) if n is not None]
        proc = {n for n in (cfg.node_containing(c) for c in proc_calls) if n is not None}
        # a processing call made once per element of a loop: the loop statement as a whole is the processing step
        # (an empty generation has nothing to process); that the loop takes the whole generation is rule all-funcs
        par_s = {id(c): p_ for p_ in ast.walk(f.node) for c in ast.iter_child_nodes(p_)}
        for c in proc_calls:
            x = c
            while id(x) in par_s and not isinstance(x, ast.stmt):
                x = par_s[id(x)]
            up = par_s.get(id(x))
            if isinstance(up, (ast.For, ast.AsyncFor)) and x in up.body:
                proc.add(cfg.node(up))
        if not sub:
            ctx.add("2-barrier", f, f.node, None, "UNDECIDED: no call that submits the generation's work was found", key=f"submit-then-process {a}")
            continue
        ok = bool(proc) and cfg.must_pass(sub[0], EXIT, proc, normal_only=True)
        par_f = {id(c): p_ for p_ in ast.walk(f.node) for c in ast.iter_child_nodes(p_)}
        unawaited = [c for c in proc_calls if a.endswith("_async") and any(cc.is_async for s_ in ctx.cg.sites.get(f.qualname, []) if s_.node is c for cc in s_.callees) and not isinstance(par_f.get(id(c)), ast.Await)]
        ctx.add("2-barrier", f, unawaited[0] if unawaited else f.node, ok and not unawaited, "the whole generation is processed (awaited) after it was submitted" if ok and not unawaited else
                "a generation can be left unprocessed / un-awaited before the driver goes on", key=f"submit-then-process {a}")
    gen_calls = [c for c in ast.walk(inner.node) if isinstance(c, ast.Call) and dotted(c.func) == "_run_and_process_generation_async"]
    par = {id(c): p for p in ast.walk(inner.node) for c in ast.iter_child_nodes(p)}
    if gen_calls:
        awaited = isinstance(par.get(id(gen_calls[0])), ast.Await)
        ctx.add("2-barrier", inner, gen_calls[0], awaited, "each generation is awaited inside the loop" if awaited else "a generation is started without being awaited: the next generation reads results that are not there yet", key="await-in-loop")
    # Future.set_result wakes the waiters of result() BEFORE it runs the done-callbacks: a store written from a callback is not
    # covered by the barrier (the next generation may read it before it is there)
    from ..flow import callable_targets

    n_cb = 0
    for f in P.functions_in(RUN):
        for c in [c for c in walk_no_nested(f.node) if isinstance(c, ast.Call) and isinstance(c.func, ast.Attribute) and c.func.attr == "add_done_callback" and c.args]:
            n_cb += 1
            tgts = callable_targets(ctx, f, c.args[0])
            writers = [t for t in tgts if any(r.rsplit(".", 1)[-1] in ("_update_array", "dump", "_dump_single_output", "__setitem__") and ("_storage_array" in r or r.startswith(RUN + ".")) for r in ctx.cg.reachable(t.qualname) | {t.qualname})]
            ctx.tri("2-barrier", f, c, bool(tgts) and not writers, bool(writers), f"`{norm(c)[:60]}`: the callback stores nothing",
                    f"`{norm(c)[:70]}` stores results from a done-callback ({writers[0].name if writers else ''}): result() returns to the waiting driver BEFORE the callbacks of the future run, "
                    "so the barrier after a generation does not cover the store - the next generation (and the caller of map) can see elements missing", "callback not resolved", key=f"callback {norm(c.args[0])[:40]}")
    ctx.add("2-barrier", RUN, "", True, f"{n_cb} done-callback registration(s) examined", key="callback-scan")
    # the pending work of a generation is filed under the FUNCTION (or its output name, which is unique in a pipeline) - `__name__`
    # is not unique (the same callable wrapped twice, two lambdas): two functions of one generation then share a slot, and the first
    # is post-processed with the second one's futures
    by_name = []
    for f in P.functions_in(RUN):
        for x in walk_no_nested(f.node):
            keys_ = []
            if isinstance(x, ast.DictComp):
                keys_.append(x.key)
            if isinstance(x, ast.Subscript):
                keys_.append(x.slice)
            if isinstance(x, ast.Dict):
                keys_ += [k for k in x.keys if k is not None]
            for k in keys_:
                if isinstance(k, ast.Attribute) and k.attr in ("__name__", "__qualname__"):
                    by_name.append((f, x, k))
    ctx.add("2-barrier", by_name[0][0] if by_name else RUN, by_name[0][1] if by_name else "", not by_name, "no table of the map driver is keyed by a function's __name__" if not by_name else
            f"`{norm(by_name[0][1])[:70]}` files per-function state under `{norm(by_name[0][2])}`: names are not unique among the functions of a pipeline (one callable wrapped twice, lambdas) - "
            "two functions of a generation share one entry and one of them is processed with the other's tasks (wrong values in the parent-written storage)", key="not-keyed-by-name")
    for q, res in ((f"{RUN}._process_task", "_result"), (f"{RUN}._process_task_async", "_result_async")):
        f = P.func(q)
        d = Defs(f)
        its = [it for it in iterations(f.node) if any(isinstance(c, ast.Call) and dotted(c.func) == res for c in ast.walk(getattr(it["node"], "elt", it["node"])))]
        verdicts = [_whole_in_order(it, d) for it in its]
        comp = [n for n in ast.walk(f.node) if isinstance(n, (ast.Name, ast.Attribute)) and (n.id if isinstance(n, ast.Name) else n.attr) in FORBIDDEN or (isinstance(n, ast.Attribute) and n.attr == "wait" and norm(n.value) == "asyncio")]
        ctx.tri("2-barrier", f, (comp or [it["node"] for it in its] or [f.node])[0], bool(its) and all(v is True for v in verdicts) and not comp, any(v is False for v in verdicts) or bool(comp),
                "every future of the function is resolved, in submission order", "the futures are resolved in part / in another order (completion order): results can be paired with the wrong index", "resolution of the futures not recognised", key=f"resolve-all {f.name}")
    # every function that walks a generation (a `list[PipeFunc]` parameter) to submit or to resolve takes it whole, in order
    n_gen = 0
    for f in mod_funcs:
        gp = [a_.arg for a_ in f.params if a_.annotation is not None and norm(a_.annotation) in ("list[PipeFunc]", "Sequence[PipeFunc]")]
        if not gp:
            continue
        for it in iterations(f.node):
            if not any(isinstance(x, ast.Name) and x.id in gp for x in ast.walk(it["iter"])):
                continue
            inside = lambda calls_: [c for c in calls_ if any(c is x for x in ast.walk(it["node"]))]  # noqa: E731
            s_in, r_in = inside(reaching(f, submitters)), inside(reaching(f, resolvers))
            what = "submitted" if s_in and not r_in else ("processed" if r_in and not s_in else None)
            if what is None:
                continue
            n_gen += 1
            v = _whole_in_order(it, Defs(f))
            ctx.tri("2-barrier", f, it["node"], v is True, v is False,
                    f"every function of the generation is {what}", f"only part of the generation is {what} (sliced / filtered / re-ordered iteration)", "iteration over the generation not recognised", key=f"all-funcs {what} {'async' if f.is_async else 'sync'}")
    ctx.floor("2-barrier.all-funcs", n_gen, 3)
    mod = P.module(RUN)
    used = sorted({n.id if isinstance(n, ast.Name) else n.attr for n in ast.walk(mod.tree) if isinstance(n, (ast.Name, ast.Attribute)) and (n.id if isinstance(n, ast.Name) else n.attr) in FORBIDDEN}
                  | {n.attr for n in ast.walk(mod.tree) if isinstance(n, ast.Attribute) and n.attr == "wait" and norm(n.value) in ("asyncio", "concurrent.futures", "futures")})
    ctx.add("2-barrier", RUN, mod.relpath, not used, "no completion-order primitive in map/_run.py" if not used else f"completion-order primitive(s) {used} in map/_run.py: results can be paired with the wrong index", key="no-completion-order")


def rule_placement(ctx: Ctx) -> None:
    P = ctx.prog
    mod = P.module(RUN)
    ot = P.func(f"{RUN}._output_from_mapspec_task")
    d = Defs(ot)
    z = [c for c in ast.walk(ot.node) if isinstance(c, ast.Call) and dotted(c.func) == "zip" and len(c.args) == 2 and ("outputs_list" in norm(c.args[1]) or norm(c.args[1]) in ot.param_names())]
    if z:
        first = d.resolve(z[0].args[0])
        t = norm(first)
        ctx.tri("3-placement", ot, z[0], t.endswith(".missing") and not reordered(first), reordered(first) or t.endswith(".existing") or t.startswith("range("),
                "results are zipped with the submitted index list (args.missing)", f"results are paired with `{t[:50]}`, not with the submitted index list in its order: outputs land at the wrong indices", f"paired with `{t[:40]}`", key="zipped")
    muts = []
    for fn in P.functions_in(RUN):
        for n in walk_no_nested(fn.node):
            if isinstance(n, ast.Call) and isinstance(n.func, ast.Attribute) and n.func.attr in ("sort", "reverse", "pop", "remove", "append", "extend", "insert", "clear") and norm(n.func.value).endswith(("args.missing", ".missing")):
                muts.append(f"{fn.name}:{n.lineno}")
    ctx.add("3-placement", RUN, mod.relpath, not muts, "args.missing is never mutated after submission" if not muts else f"args.missing is mutated at {muts}", key="missing-immutable")
    mpm = P.func(f"{RUN}._maybe_parallel_map")
    ip = [p_ for p_ in mpm.param_names() if p_ == "indices"]
    its = [it for it in iterations(mpm.node) if ip and any(isinstance(x, ast.Name) and x.id == ip[0] for x in ast.walk(it["iter"]))]
    verdicts = [_whole_in_order(it, Defs(mpm)) for it in its]
    ctx.tri("3-placement", mpm, (its or [{"node": mpm.node}])[0]["node"], len(its) >= 2 and all(v is True for v in verdicts), any(v is False for v in verdicts),
            "one task per index, in index-list order, parallel and sequential alike", "tasks are created for part of the indices / in another order than the index list: results are paired with the wrong index", "task creation not recognised", key="task-order")


def rule_one_dump(ctx: Ctx) -> None:
    P, cg = ctx.prog, ctx.cg
    ua = P.func(f"{RUN}._update_array")
    cfg = ctx.cfg(ua)
    dn = cfg.nodes(lambda s: not isinstance(s, (ast.If, ast.For)) and any(isinstance(c, ast.Call) and isinstance(c.func, ast.Attribute) and c.func.attr == "dump" for c in ast.walk(s)))
    if not dn:
        raise AnalysisError("_update_array: the element dump was not found")
    ctrl = [(inline_predicates(ctx, ua, Defs(ua).resolve(t)), truth) for t, truth in cfg.controls(dn[0])]
    ATOMS = ("force_dump", "in_post_process", "array.dump_in_subprocess")

    def dumps(env: dict[str, bool]) -> bool | None:
        vals = [bool_eval(t, env) for t, _tr in ctrl]
        if any(v is None for v in vals):
            return None
        return all(v == tr for v, (_t, tr) in zip(vals, ctrl))

    names = {a_ for t, _tr in ctrl for a_ in bool_atoms(t)}
    flat = {n_ for t, _tr in ctrl for n_ in (norm(x) for x in ast.walk(t) if isinstance(x, (ast.Name, ast.Attribute)))}
    if not (set(ATOMS) & flat):
        ctx.add("4-one-dump", ua, cfg.stmt[dn[0]], None, f"UNDECIDED: the dump is controlled by {sorted(names)}, not by force_dump / in_post_process / dump_in_subprocess", key="guard-table")
    else:
        rows, ok, decided = [], True, True
        for dis in (True, False):
            worker = dumps({"force_dump": False, "in_post_process": False, "array.dump_in_subprocess": dis})
            parent = dumps({"force_dump": False, "in_post_process": True, "array.dump_in_subprocess": dis})
            rows.append((dis, worker, parent))
            decided &= worker is not None and parent is not None
            ok &= (worker != parent) and (worker == dis)
        for dis, ipp in itertools.product((True, False), repeat=2):
            v = dumps({"force_dump": True, "in_post_process": ipp, "array.dump_in_subprocess": dis})
            decided &= v is not None
            ok &= bool(v)
        ctx.tri("4-one-dump", ua, cfg.stmt[dn[0]], decided and ok, decided and not ok, f"truth table (dump_in_subprocess, worker dumps, parent dumps) = {rows}: exactly one side dumps, the worker iff the storage is cross-process",
                f"the dump-ownership condition lets an element be dumped twice or not at all: (dump_in_subprocess, worker dumps, parent dumps) = {rows}", "the controlling condition could not be evaluated", key="guard-table")
    sites = [s_ for s_ in cg.call_sites_of(f"{RUN}._update_array") if s_.kind == "call"]
    ctxs = sorted((s_.caller.name, next((norm(k.value) for k in s_.node.keywords if k.arg == "in_post_process"), "default")) for s_ in sites)
    want = {"_output_from_mapspec_task": "True", "_run_iteration_and_process": "False"}
    wrong = [(c_, v) for c_, v in ctxs if c_ in want and v != want[c_]]
    ctx.tri("4-one-dump", ua, ua.node, not wrong and {c_ for c_, _v in ctxs} >= set(want), bool(wrong), "two call contexts: worker (in_post_process=False) and parent (True)",
            f"{wrong}: the {'parent' if wrong and wrong[0][0] == '_output_from_mapspec_task' else 'worker'} context passes the wrong in_post_process flag: elements are dumped twice or never", f"call contexts {ctxs}", key="contexts")
    fd_true = []
    for fn in P.functions.values():
        for c in [c for c in walk_no_nested(fn.node) if isinstance(c, ast.Call)]:
            for k in c.keywords:
                if k.arg == "force_dump" and isinstance(k.value, ast.Constant) and k.value.value is True:
                    fd_true.append(fn.qualname)
    extra = [q for q in fd_true if not q.startswith("pipefunc.map.adaptive.")]
    ctx.add("4-one-dump", "force_dump", "", not extra, "force_dump=True only from the learner path (which has no parent post-processing)" if not extra else f"force_dump is forced from {extra}: elements are dumped by the worker and again by the parent", key="force-dump-callers")


def rule_own_backing_container(ctx: Ctx) -> None:
    """Each output array is built with its OWN mutable backing container: a container created once and handed to every
    array that a loop / comprehension builds makes the outputs of a multi-output function overwrite each other."""
    P = ctx.prog
    n = 0

    def creates_container(v: ast.AST) -> bool:
        if isinstance(v, (ast.Dict, ast.List, ast.Set, ast.DictComp, ast.ListComp, ast.SetComp)):
            return True
        if isinstance(v, ast.Call):
            last = dotted(v.func).rsplit(".", 1)[-1] if dotted(v.func) else (v.func.attr if isinstance(v.func, ast.Attribute) else "")
            if dotted(v.func) in ("dict", "list", "set", "collections.defaultdict", "defaultdict", "collections.OrderedDict", "OrderedDict"):
                return True
            # <manager>.dict() / .list(): a proxy of ONE server-side container
            if isinstance(v.func, ast.Attribute) and last in ("dict", "list", "Queue", "Namespace") and "anager" in norm(v.func.value):
                return True
        return False

    for f in P.functions_in("pipefunc.map._run_info"):
        par = {id(c): p_ for p_ in ast.walk(f.node) for c in ast.iter_child_nodes(p_)}
        for call in [c for c in ast.walk(f.node) if isinstance(c, ast.Call) and isinstance(c.func, ast.Name)]:
            ty = ctx.cg.typer.expr(f, call.func)
            is_storage_ctor = (ty.kind == "type" and any("_storage_array" in a.name for a in ty.args if a.kind == "cls")) or call.func.id == "storage_class"
            if not is_storage_ctor:
                continue
            # the loop / comprehension that builds one array per output
            x, rep = call, None
            while id(x) in par:
                x = par[id(x)]
                if isinstance(x, (ast.ListComp, ast.GeneratorExp, ast.DictComp, ast.For)):
                    rep = x
                    break
            if rep is None:
                continue
            n += 1
            inside = {id(z) for z in ast.walk(rep)}
            names = {a.id for a in call.args if isinstance(a, ast.Name)} | {k.value.id for k in call.keywords if isinstance(k.value, ast.Name)}
            shared = []
            for nm in sorted(names):
                for st in walk_no_nested(f.node):
                    if id(st) in inside:
                        continue
                    if isinstance(st, ast.Assign):
                        for t in st.targets:
                            if isinstance(t, ast.Name) and t.id == nm and creates_container(st.value) and not any(k.arg is None and isinstance(k.value, ast.Name) and k.value.id == nm for k in call.keywords):
                                shared.append((st, nm))
                            # kwargs["mapping"] = <container>  ...  cls(..., **kwargs)
                            if isinstance(t, ast.Subscript) and isinstance(t.value, ast.Name) and t.value.id == nm and creates_container(st.value) and any(k.arg is None and isinstance(k.value, ast.Name) and k.value.id == nm for k in call.keywords):
                                shared.append((st, f"{nm}[{norm(t.slice)}]"))
                    if isinstance(st, ast.Assign) and isinstance(st.value, ast.Dict) and any(isinstance(t, ast.Name) and t.id == nm for t in st.targets) and any(k.arg is None and isinstance(k.value, ast.Name) and k.value.id == nm for k in call.keywords):
                        for kk, vv in zip(st.value.keys, st.value.values):
                            if creates_container(vv):
                                shared.append((st, f"{nm}[{norm(kk) if kk is not None else '**'}]"))
            ctx.add("5-shared", f, shared[0][0] if shared else call, not shared, f"`{norm(call)[:60]}`: no mutable container is created once and handed to every array" if not shared else
                    f"`{norm(shared[0][0])[:70]}` creates ONE container outside the loop and `{norm(call)[:50]}` hands it to every array it builds: the outputs of a multi-output function share their backing store, "
                    "each element is overwritten by the last output written (every reader gets that output's values for all outputs)", key=f"own-container {f.name}")
    ctx.floor("5-shared.own-container", n, 1)


def rule_shared(ctx: Ctx) -> None:
    P = ctx.prog
    tainted = proxy_fields(ctx)
    n5 = 0
    for sub in P.subclasses("pipefunc.map._storage_array._base.StorageBase"):
        if "zarr" in sub.module.name:
            continue
        m = P.find_method(sub.qualname, "dump_in_subprocess")
        if m is None:
            continue
        rets = [r for r in walk_no_nested(m.node) if isinstance(r, ast.Return)]
        val = norm(rets[-1].value) if rets else "?"
        n5 += 1
        if val != "True":
            ctx.tri("5-shared", sub.qualname, sub.loc, val == "False", False, f"{sub.name}: parent dumps (process-local storage)", "", f"{sub.name}.dump_in_subprocess returns `{val}`", key=f"dis {sub.name}")
            continue
        dmp = P.find_method(sub.qualname, "dump")
        file_backed = dmp is not None and ctx.effects.has(dmp.qualname, FS_WRITE)
        proxy = sub.qualname in tainted
        if file_backed:  # workers write files: the folder must not depend on the worker's working directory
            for c in P.mro(sub.qualname):
                init = c.methods.get("__init__") if hasattr(c, "methods") else None
                if init is None:
                    continue
                for s_ in walk_no_nested(init.node):
                    if isinstance(s_, ast.Assign) and any(norm(t) == "self.folder" for t in s_.targets):
                        v = norm(Defs(init).resolve(s_.value))
                        absolute = any(w in v for w in (".absolute()", ".resolve()", "abspath("))
                        ctx.tri("5-shared", init, s_, absolute, not absolute and v.startswith("Path(") and v.endswith(")") and v.count("(") == 1,
                                f"{sub.name} keeps an absolute folder: worker processes write where the parent reads", f"`self.folder = {v}` keeps a relative path: a worker whose working directory differs writes its elements elsewhere and the parent reads them back as missing",
                                f"folder `{v[:40]}` not classified", key=f"absolute-folder {sub.name}")
        # a violation needs the positive fact that the backing container is process-local: the constructor chain mentions no manager at all
        mentions_manager = any("anager" in norm(c_.node) for c_ in [m_ for k_ in P.mro(sub.qualname) for nm_, m_ in dict.items(k_.methods) if nm_ == "__init__"])
        ctx.tri("5-shared", sub.qualname, sub.loc, file_backed or proxy, not (file_backed or proxy) and not mentions_manager, f"{sub.name}: workers dump into {'files' if file_backed else 'a manager proxy'} that the parent can read",
                f"{sub.name} lets workers dump but its storage is neither files nor a manager proxy: worker results never reach the parent", f"{sub.name}: the constructor mentions a manager, but how the proxy reaches the backing field was not recognised", key=f"dis {sub.name}")
        for fld in tainted.get(sub.qualname, ()):
            for c in P.mro(sub.qualname):
                for name, meth in c.methods.items():
                    if name == "__init__":
                        continue
                    for s_ in walk_no_nested(meth.node):
                        tg = s_.targets if isinstance(s_, ast.Assign) else ([s_.target] if isinstance(s_, (ast.AnnAssign, ast.AugAssign)) else [])
                        for t in tg:
                            if isinstance(t, ast.Attribute) and norm(t.value) == "self" and t.attr == fld:
                                ctx.add("5-shared", meth, s_, False, f"`{norm(s_)[:60]}` rebinds self.{fld}, which is the manager proxy shared with the workers in {sub.name}: later worker dumps go to per-process copies and are lost", key=f"rebind {sub.name}.{fld}")
            ctx.add("5-shared", sub.qualname, sub.loc, True, f"{sub.name}: analysed methods for rebinding of self.{fld}", key=f"scan {sub.name}.{fld}")
    ctx.floor("5-shared", n5, 3)


def rule_executor(ctx: Ctx) -> None:
    P = ctx.prog
    ef = P.func(f"{RUN}._executor_for_func")
    cfg = ctx.cfg(ef)
    rets = set(cfg.nodes(lambda s: isinstance(s, ast.Return)))
    ok = cfg.must_pass(ENTRY, EXIT, rets, normal_only=True)
    ctx.add("6-executor", ef, ef.node, ok, "every normal path returns explicitly (otherwise raises)" if ok else "_executor_for_func can fall off the end (None executor for a parallel run)", key="total")
    ep = [p_ for p_ in ef.param_names() if "executor" in p_]
    none_rets = [r for r in rets if cfg.stmt[r].value is None or (isinstance(cfg.stmt[r].value, ast.Constant) and cfg.stmt[r].value.value is None)]
    d = Defs(ef)
    bad_none = []
    for r in none_rets:
        facts = guard_facts(cfg, d, r)
        if ep and not any(t == f"{ep[0]} is None" and pol for t, pol in facts):
            bad_none.append(r)
    ctx.add("6-executor", ef, cfg.stmt[bad_none[0]] if bad_none else ef.node, not bad_none, "None is returned only when no executors were given" if not bad_none else
            "a missing executor entry yields None (the function silently runs without its executor) instead of an error", key="raises")
    from ..cfg import RAISE

    ctx.tri("6-executor", ef, ef.node, RAISE in cfg.reachable_from(ENTRY), False, "no executor for an output and no default -> error", "", "no raise found", key="has-raise")


def rule_picklable_state(ctx: Ctx) -> None:
    """Whatever a PipeFunc keeps of the user's function object crosses the process boundary by value.

    Process pools pickle the PipeFunc with plain pickle.  `PipeFunc.func` is the raw function; for a function decorated at
    module level the module attribute of that name is the PipeFunc itself, so the function cannot be pickled by reference and
    `__getstate__` converts it with cloudpickle.  Every OTHER attribute that one of the class's methods fills with (an object
    holding) `self.func` needs the same treatment - by `PipeFunc.__getstate__`, or by the `__getstate__` of the holder class -
    otherwise the PipeFunc stops working in process pools once that attribute has been set (sequential execution still works)."""
    P = ctx.prog
    pf = P.cls("pipefunc._pipefunc.PipeFunc")
    gs = pf.methods["__getstate__"]
    gs_text = norm(gs.node)
    n = 0
    for m in pf.methods.values():
        par = {id(c): p_ for p_ in ast.walk(m.node) for c in ast.iter_child_nodes(p_)}
        for a in [x for x in ast.walk(m.node) if isinstance(x, ast.Assign)]:
            attrs = [t.attr for t in a.targets if isinstance(t, ast.Attribute) and isinstance(t.value, ast.Name) and t.value.id == "self"]
            if not attrs or attrs[0] == "func":
                continue
            # `self.func` used as a value (not as the base of `.name` / of a call)
            held = [x for x in ast.walk(a.value) if isinstance(x, ast.Attribute) and x.attr == "func" and isinstance(x.value, ast.Name) and x.value.id == "self"
                    and not (isinstance(par.get(id(x)), ast.Attribute) and par[id(x)].value is x) and not (isinstance(par.get(id(x)), ast.Call) and par[id(x)].func is x)]
            if not held:
                continue
            n += 1
            attr = attrs[0]
            by_pipefunc = f"'{attr}'" in gs_text and f"cloudpickle.dumps(self.{attr})" in gs_text
            holder_ok, holder_bad, why = False, False, ""
            v = a.value
            if isinstance(v, ast.Call):
                ctors = [c for c in ctx.cg.resolve_callable(m, v.func) if c.cls is not None]
                q = P.resolve_name(m.module, dotted(v.func), m)
                hc = P.classes.get(q)
                if hc is not None:
                    # which field of the holder receives self.func
                    fields_ = list(hc.fields)
                    fld = None
                    for i, arg_ in enumerate(v.args):
                        if arg_ is held[0] and i < len(fields_):
                            fld = fields_[i]
                    for k in v.keywords:
                        if k.value is held[0]:
                            fld = k.arg
                    hgs = hc.methods.get("__getstate__") if "__getstate__" in dict.keys(hc.methods) else None
                    if fld is not None:
                        if hgs is not None and f"cloudpickle.dumps(self.{fld})" in norm(hgs.node):
                            holder_ok, why = True, f"{hc.name}.__getstate__ pickles `{fld}` by value"
                        elif hgs is None or not any(isinstance(c, ast.Call) and dotted(c.func).endswith("dumps") and any(norm(a_) == f"self.{fld}" for a_ in c.args) for c in ast.walk(hgs.node)):
                            holder_bad, why = True, f"{hc.name} has no __getstate__ that pickles `{fld}` by value"
                _ = ctors
            ctx.tri("7-picklable-state", m, a, by_pipefunc or holder_ok, holder_bad and not by_pipefunc,
                    f"`self.{attr}` holds the user's function; " + (why or "PipeFunc.__getstate__ converts it with cloudpickle"),
                    f"`{norm(a)[:70]}` stores the user's function in `self.{attr}`, but neither PipeFunc.__getstate__ converts `{attr}` nor does the holder pickle it by value ({why}): "
                    "after this assignment the PipeFunc cannot be sent to a process pool (PicklingError for functions decorated at module level), while sequential execution still works",
                    f"`self.{attr}` holds the user's function in a way this rule does not follow", key=f"holds-func {attr}")
    ctx.tri("7-picklable-state", gs, gs.node, "cloudpickle.dumps(self.func)" in gs_text, "self.func" not in gs_text and "'func'" not in gs_text, "PipeFunc.__getstate__ pickles `func` by value",
            "PipeFunc.__getstate__ no longer treats `func` specially", "handling of `func` in __getstate__ not recognised", key="func-by-value")
    ctx.floor("7-picklable-state.holders", n, 1)
    # what crosses the process boundary (functions, pipelines, storage handles, run info) holds nothing the pickle module refuses
    from ..flow import unpicklable_fields

    shipped = [c for c in P.classes.values() if c.qualname in ("pipefunc._pipefunc.PipeFunc", "pipefunc._pipefunc.NestedPipeFunc", "pipefunc._pipeline._base.Pipeline", "pipefunc.map._run_info.RunInfo",
                                                               "pipefunc._pipefunc.ErrorSnapshot", "pipefunc.map._mapspec.MapSpec", "pipefunc.resources.Resources")
               or "pipefunc.map._storage_array._base.StorageBase" in [b.qualname for b in P.mro(c.qualname)]]
    k = 0
    for c in shipped:
        if c.module.name.endswith("_zarr"):
            continue
        k += 1
        bad = unpicklable_fields(P, c)
        ctx.add("7-picklable-state", bad[0][0] if bad else c.qualname, bad[0][1] if bad else c.loc, not bad, f"{c.name} holds no lock / file / executor" if not bad else
                f"`{norm(bad[0][1])[:60]}` puts a `{bad[0][3]}` on every {c.name}, and neither __getstate__ nor __reduce__ leaves `{bad[0][2]}` out: the object can no longer be pickled - "
                "process pools, shared caches and save_to_file fail with TypeError (cannot pickle), sequential runs still work", key=f"no-unpicklable-field {c.name}")
    ctx.floor("7-picklable-state.shipped", k, 8)


def rule_no_shared_write(ctx: Ctx) -> None:
    """Element tasks do not write into objects that all elements of a map share.

    The per-element function is a `functools.partial` whose bound arguments are created ONCE per map and shared by every
    element task (in-process executors run them on that very object, process pools on a copy per task).  If a task stores into
    a bound dict/list, what later tasks see depends on which task ran first and on the executor - exactly what C03 excludes.
    Storage arrays are the intended exception (their element writes are disjoint by construction: rules 3 and 4)."""
    from ..flow import param_mutated_in_closure

    P = ctx.prog
    n = 0
    for f in [f_ for f_ in P.functions_in(RUN) if f_.cls is None]:
        for c in [c for c in ast.walk(f.node) if isinstance(c, ast.Call) and dotted(c.func) in ("functools.partial", "partial") and c.args]:
            for target in ctx.cg.resolve_callable(f, c.args[0]):
                anns = {a.arg: norm(a.annotation) if a.annotation is not None else "" for a in target.params}
                bound = [k.arg for k in c.keywords if k.arg] + [p_ for i, p_ in enumerate(target.param_names()) if i < len(c.args) - 1]
                for p_ in bound:
                    if not re.match(r"(dict|list|Dict|List|MutableMapping|set)\b", anns.get(p_, "")):
                        continue
                    n += 1
                    muts = param_mutated_in_closure(ctx, target, p_)
                    ctx.add("8-no-shared-write", muts[0][0] if muts else target, muts[0][1] if muts else target.node, not muts,
                            f"`{p_}` (bound once per map in {f.name}) is only read by the element tasks" if not muts else
                            f"`{norm(muts[0][1])[:60]}` writes into `{p_}`, which {f.name} binds ONCE for all element tasks of the map: with an in-process executor later elements see what an earlier element stored "
                            "(the result depends on start order), with a process pool they do not", key=f"shared {target.name}.{p_}")
    ctx.floor("8-no-shared-write", n, 1)


def rule_reads_are_stateless(ctx: Ctx) -> None:
    """The storage objects of a map are shared by every element task (a thread pool runs all tasks on the very same object).
    Their READ methods must not keep per-call state on `self`: an attribute written from a value that depends on the call's
    arguments (a "last key / last value" memo) is seen by the other threads between its write and its use - one particular
    interleaving hands a task another index's element.  Lazily initialised state that does not depend on the arguments
    (idempotent) is not reported, nor are writes made under a `with <lock>`."""
    from ..flow import dependence_text

    P = ctx.prog
    READS = ("__getitem__", "get_from_index", "has_index", "to_array", "mask", "mask_linear", "_internal_mask", "__len__", "_slice_indices", "_key_to_file", "_index_to_file", "_files")
    base_q = "pipefunc.map._storage_array._base.StorageBase"
    n = 0
    for cls in P.classes.values():
        if base_q not in [c.qualname for c in P.mro(cls.qualname)] or cls.module.name.endswith("_zarr"):
            continue
        for mname, fn in cls.methods.items():
            if mname not in READS:
                continue
            n += 1
            params = [p_ for p_ in fn.param_names() if p_ != "self"]
            par = {id(c): p_ for p_ in ast.walk(fn.node) for c in ast.iter_child_nodes(p_)}
            bad = []
            for a in walk_no_nested(fn.node):
                tg = a.targets if isinstance(a, ast.Assign) else ([a.target] if isinstance(a, (ast.AugAssign, ast.AnnAssign)) else [])
                for t in tg:
                    if not (isinstance(t, ast.Attribute) and isinstance(t.value, ast.Name) and t.value.id == "self"):
                        continue
                    x: ast.AST = a
                    locked = False
                    while id(x) in par:
                        x = par[id(x)]
                        if isinstance(x, ast.With) and any("lock" in norm(i.context_expr).lower() for i in x.items):
                            locked = True
                    dep = dependence_text(fn.node, a.value) if getattr(a, "value", None) is not None else ""
                    if not locked and any(re.search(rf"\b{re.escape(p_)}\b", dep) for p_ in params):
                        bad.append(a)
            ctx.add("8-no-shared-write", fn, bad[0] if bad else fn.node, not bad, f"{cls.name}.{mname} keeps no per-call state on the shared object" if not bad else
                    f"`{norm(bad[0])[:60]}` in {cls.name}.{mname} stores something that depends on this call's arguments on the storage object, which all element tasks of a thread pool share: between this write and its use "
                    "another task can replace it - a task then receives the element of another index (sequential and process-pool runs stay correct, so results depend on the executor and the schedule)", key=f"stateless {cls.name}.{mname}")
    ctx.floor("8-no-shared-write.read-methods", n, 8)
    # ... nor a snapshot of what the backing store CONTAINS (a directory listing, the key set of the mapping): every worker
    # process holds its own copy of the object and writes to the same store, so a memoised listing / mask goes stale as soon as
    # another copy dumps an element - has_index / mask then report stored elements as missing (recomputed or read as masked)
    STORE_READ = re.compile(r"os\.listdir\(|\.iterdir\(\)|\.glob\(|\.rglob\(|\.is_file\(\)|\.exists\(\)|os\.scandir\(|self\._dict\b|self\._files\(\)|\bload\(")
    m_ = 0
    for cls in P.classes.values():
        if base_q not in [c.qualname for c in P.mro(cls.qualname)] or cls.module.name.endswith("_zarr"):
            continue
        for mname, fn in cls.methods.items():
            decos = [norm(d_) for d_ in fn.node.decorator_list]
            memo = [d_ for d_ in decos if re.search(r"\b(cached_property|lru_cache|cache)\b", d_)]
            if memo:
                m_ += 1
                reads = STORE_READ.search(norm(ast.Module(body=fn.node.body, type_ignores=[])))
                ctx.add("8-no-shared-write", fn, fn.node, not reads, f"{cls.name}.{mname} is memoised and does not read the store" if not reads else
                        f"{cls.name}.{mname} is memoised (`@{memo[0]}`) and reads the backing store (`{reads.group(0)}`): the snapshot is taken once per object, but other processes' copies keep writing to the same store - "
                        "elements they stored later are reported as missing (recomputed on resume / read as masked)", key=f"no-store-snapshot {cls.name}.{mname}")
            if mname not in READS:
                continue
            par = {id(c): p_ for p_ in ast.walk(fn.node) for c in ast.iter_child_nodes(p_)}
            snap = []
            for a in walk_no_nested(fn.node):
                tg = a.targets if isinstance(a, ast.Assign) else ([a.target] if isinstance(a, (ast.AugAssign, ast.AnnAssign)) else [])
                for t in tg:
                    root = t
                    while isinstance(root, ast.Subscript):
                        root = root.value
                    if not (isinstance(root, ast.Attribute) and isinstance(root.value, ast.Name) and root.value.id == "self"):
                        continue
                    if root.attr == "_dict" and isinstance(t, ast.Subscript):
                        continue  # a store INTO the backing mapping is not a snapshot of it
                    ctl, x = "", a
                    while id(x) in par:
                        x = par[id(x)]
                        if isinstance(x, (ast.For, ast.AsyncFor)):
                            ctl += " " + norm(x.iter)
                    dep = (dependence_text(fn.node, a.value) if getattr(a, "value", None) is not None else "") + ctl
                    if STORE_READ.search(dep):
                        snap.append(a)
            m_ += 1
            ctx.add("8-no-shared-write", fn, snap[0] if snap else fn.node, not snap, f"{cls.name}.{mname} keeps no snapshot of the store's content on the object" if not snap else
                    f"`{norm(snap[0])[:60]}` in {cls.name}.{mname} keeps what the backing store contained at this moment on the object: other processes' copies keep writing to the same store, so the memo goes stale - "
                    "elements stored later by another copy are reported as missing (recomputed on resume / read as masked)", key=f"no-store-snapshot {cls.name}.{mname}")
    ctx.floor("8-no-shared-write.snapshots", m_, 8)


def rule_parent_stores_single_outputs(ctx: Ctx) -> None:
    """The output of a function WITHOUT MapSpec is stored by the parent (in _process_task), never by the submitted task itself: with
    no run folder the store holds in-memory DirectValue objects, and a task running in another process writes to its pickled copy
    only - every later function then receives None for that value with a process pool, and the right value with threads."""
    P = ctx.prog
    dso = P.functions.get(f"{RUN}._dump_single_output")
    if dso is None:
        ctx.add("4-one-dump", f"{RUN}", "", None, "UNDECIDED: _dump_single_output not found (inlined?)", key="single-output-stored-by-parent")
        return
    submitted = {c.qualname for sites in ctx.cg.sites.values() for s_ in sites if s_.kind == "submit" for c in s_.callees}
    # what the executor runs for a single call: the targets handed to submit (through the _submit helper as well)
    sub_helper = P.functions.get(f"{RUN}._submit")
    if sub_helper is not None:
        for s_ in ctx.cg.call_sites_of(sub_helper.qualname):
            if s_.node.args:
                submitted |= {c.qualname for c in ctx.cg.resolve_callable(s_.caller, s_.node.args[0])}
    in_task = sorted(q for q in submitted if dso.qualname in ctx.cg.reachable(q))
    ctx.add("4-one-dump", dso, dso.node, not in_task, f"_dump_single_output is only reached from the parent side ({len(submitted)} submitted callables examined)" if not in_task else
            f"{in_task[0].rsplit('.', 1)[-1]} - a callable that is submitted to the executor - reaches _dump_single_output: with in-memory storage and a process pool the value is stored in the worker's copy of the store, "
            "downstream functions receive None (threads / sequential runs are unaffected)", key="single-output-stored-by-parent")


PROCESS_STATE_EXEMPT = {
    "pipefunc._utils._cached_load": "only reached through load(..., cache=True); C04.1 fresh-load forbids that for every result/inputs load",
}


def rule_no_process_memo(ctx: Ctx) -> None:
    """What is read from a run folder is not remembered in process-global state.

    A module-level container (or an lru_cache) filled with values that were read from files lives as long as the process: a
    second map into the same folder in the same process (sequential, threads, a long-lived pool) is served the remembered
    values, a fresh worker process reads the files - the result depends on the executor and on history.  Rule: in the map and
    storage modules no function that (transitively) reads files stores into a module-level container or is memoised."""
    from ..effects import FS_READ

    P = ctx.prog
    mutators = ("append", "extend", "insert", "pop", "remove", "clear", "update", "setdefault", "popitem", "add", "discard", "__setitem__")
    n = 0
    for mn, mod in P.modules.items():
        if not (mn.startswith("pipefunc.map") or mn == "pipefunc._utils"):
            continue
        glob = {nm for nm, v in mod.assigns.items() if isinstance(v, (ast.Dict, ast.List, ast.Set, ast.DictComp, ast.ListComp))
                or (isinstance(v, ast.Call) and dotted(v.func).rsplit(".", 1)[-1] in ("dict", "list", "set", "defaultdict", "OrderedDict", "WeakValueDictionary", "deque"))}
        for fn in P.functions_in(mn):
            reads = ctx.effects.has(fn.qualname, FS_READ)
            memo = [d for d in fn.decorators if d.rsplit(".", 1)[-1] in ("lru_cache", "cache")]
            if memo:
                n += 1
                ok = not reads or fn.qualname in PROCESS_STATE_EXEMPT
                ctx.add("9-no-process-memo", fn, fn.node, ok, f"memoised function {fn.name}: " + (PROCESS_STATE_EXEMPT.get(fn.qualname, "reads no files")) if ok else
                        f"{fn.name} is memoised with @{memo[0]} and reads files: a later run in the same process gets the remembered content, a fresh worker process the current one", key=f"memo {fn.name}")
            local = {a.arg for a in fn.params} | {t.id for a in ast.walk(fn.node) if isinstance(a, ast.Assign) for t in a.targets if isinstance(t, ast.Name)}
            for x in ast.walk(fn.node):
                name = None
                if isinstance(x, ast.Subscript) and isinstance(x.ctx, (ast.Store, ast.Del)) and isinstance(x.value, ast.Name):
                    name = x.value.id
                if isinstance(x, ast.Call) and isinstance(x.func, ast.Attribute) and x.func.attr in mutators and isinstance(x.func.value, ast.Name):
                    name = x.func.value.id
                if name in glob and name not in local:
                    n += 1
                    ctx.add("9-no-process-memo", fn, x, not reads, f"`{name}` is written by {fn.name}, which reads no files (a registry)" if not reads else
                            f"`{norm(x)[:60]}` stores into the module-level `{name}` in a function that reads files of a run folder: the remembered value outlives the folder's content "
                            "(a second map in the same process is served stale data, a fresh worker process is not)", key=f"global {fn.name} {name}")
    ctx.floor("9-no-process-memo", n, 2)


def check(ctx: Ctx) -> None:
    for rule in (rule_mirror, rule_barrier, rule_placement, rule_one_dump, rule_shared, rule_own_backing_container, rule_executor, rule_picklable_state, rule_no_shared_write, rule_reads_are_stateless, rule_parent_stores_single_outputs, rule_no_process_memo):
        ctx.run(rule)


R, D = "pipefunc/map/_run.py", "pipefunc/map/_storage_array/_dict.py"
MUTANTS = [
    Mutant("file-has-index-from-cached-listing", "pipefunc/map/_storage_array/_file.py", "    def has_index(self, index: int) -> bool:\n        \"\"\"Return whether the given linear index exists.\"\"\"\n        return self._index_to_file(index).is_file()\n",
           "    @functools.cached_property\n    def _existing_files(self) -> set[str]:\n        return set(os.listdir(self.folder))\n\n    def has_index(self, index: int) -> bool:\n        \"\"\"Return whether the given linear index exists.\"\"\"\n        return self._index_to_file(index).name in self._existing_files\n", ("C03.8-no-shared-write",), why="round-8 seed C06/21"),
    Mutant("pipefunc-holds-a-lock", "pipefunc/_pipefunc.py", "        self._output_picker: Callable[[Any, str], Any] | None = output_picker\n", "        self._output_picker: Callable[[Any, str], Any] | None = output_picker\n        self._call_lock = threading.RLock()\n", ("C03.7-picklable-state",), why="round-8 seed C18/22 (same construct on PipeFunc)"),
    Mutant("snapshot-function-by-reference-F36", "pipefunc/_pipefunc.py", '        state["function"] = cloudpickle.dumps(self.function)\n', "", ("C03.7-picklable-state",), why="original F36"),
    Mutant("snapshot-getstate-plain-copy", "pipefunc/_pipefunc.py", '        state["function"] = cloudpickle.dumps(self.function)\n', '        state["function"] = self.function\n', ("C03.7-picklable-state",)),
    Mutant("async-as-completed", R, "        outputs_list = await asyncio.gather(*futs)\n", "        outputs_list = [await fut for fut in asyncio.as_completed(futs)]\n", ("C03.2-barrier", "C03.1-mirror"), why="seeded C03/1"),
    Mutant("async-wait-first-exception", R, "        outputs_list = await asyncio.gather(*futs)\n", "        done, _pending = await asyncio.wait(futs, return_when=asyncio.FIRST_EXCEPTION)\n        outputs_list = [f.result() for f in futs]\n", ("C03.2-barrier", "C03.1-mirror"), why="seeded C13/3"),
    Mutant("async-skips-dump-single", R, "        r = await _result_async(task, loop)\n        output = _dump_single_output(func, r, store)\n", "        r = await _result_async(task, loop)\n        output = (r,)\n", ("C03.1-mirror",)),
    Mutant("async-prepare-drops-cleanup", R, "        storage=storage,\n        cleanup=cleanup,\n        fixed_indices=fixed_indices,\n        auto_subpipeline=auto_subpipeline,\n        show_progress=show_progress,\n        in_async=True,\n", "        storage=storage,\n        cleanup=True,\n        fixed_indices=fixed_indices,\n        auto_subpipeline=auto_subpipeline,\n        show_progress=show_progress,\n        in_async=True,\n", ("C03.1-mirror",)),
    Mutant("async-generation-not-awaited", R, "                await _run_and_process_generation_async(\n", "                _run_and_process_generation_async(\n", ("C03.2-barrier",)),
    Mutant("sort-missing-after-submit", R, "    for index, outputs in zip(args.missing, outputs_list):\n", "    for index, outputs in zip(sorted(args.missing, reverse=True), outputs_list):\n", ("C03.3-placement",)),
    Mutant("submit-reversed", R, "        return [_submit(process_index, ex, status, progress, i) for i in indices]\n", "        return [_submit(process_index, ex, status, progress, i) for i in reversed(indices)]\n", ("C03.3-placement",)),
    Mutant("guard-eq", R, "        if force_dump or (array.dump_in_subprocess != in_post_process):\n", "        if force_dump or (array.dump_in_subprocess == in_post_process):\n", ("C03.4-one-dump",)),
    Mutant("guard-and", R, "        if force_dump or (array.dump_in_subprocess != in_post_process):\n", "        if force_dump and (array.dump_in_subprocess != in_post_process):\n", ("C03.4-one-dump",)),
    Mutant("guard-always-worker", R, "        if force_dump or (array.dump_in_subprocess != in_post_process):\n", "        if force_dump or not in_post_process:\n", ("C03.4-one-dump",)),
    Mutant("dict-dumps-in-subprocess", D, "        \"\"\"Indicates if the storage can be dumped in a subprocess and read by the main process.\"\"\"\n        return False\n", "        \"\"\"Indicates if the storage can be dumped in a subprocess and read by the main process.\"\"\"\n        return True\n", ("C03.5-shared",)),
    Mutant("load-rebinds-proxy-F05", D, "        # Update in place to keep the backing mapping (might be a proxy shared with subprocesses)\n        self._dict.update(load(self._path()))\n", "        self._dict = load(self._path())\n", ("C03.5-shared",), why="original F05"),
    Mutant("executor-no-default", R, "    if \"\" in executor:\n        return executor[\"\"]\n    msg = (", "    if \"\" in executor:\n        return executor[\"\"]\n    return None\n    msg = (", ("C03.6-executor",)),
    Mutant("twin-process-task-local", R, "        outputs_list = [_result(x) for x in r]\n        output = _output_from_mapspec_task(func, store, args, outputs_list)\n", "        outputs_list = [_result(x) for x in r]  # resolves every future\n        output = _output_from_mapspec_task(func, store, args, outputs_list)\n", twin=True),
]
