"""C03 - map results and call counts are independent of executor, storage and schedule (structural clauses).

  1 mirror     the async driver functions are the sync ones after normalisation (await / _async / wrap_future),
               except for the declared differences
  2 barrier    every future of a generation is resolved before the next generation is submitted; nothing in
               map/_run.py consumes futures in completion order (as_completed / asyncio.wait / FIRST_*)
  3 placement  results are paired with indices by submission order: the submitted index list and the first operand of
               zip(..., outputs_list) are the same never-mutated `missing` list, collected by order-preserving means
  4 one-dump   the dump-ownership guard of _update_array is a truth table in which, without force_dump, exactly one of
               the two call contexts (worker / parent) dumps for either kind of storage; force_dump only from adaptive
  5 shared     a storage class that lets workers dump has cross-process backing which no method rebinds
  6 executor   _executor_for_func returns or raises on every path, own entry first, then the '' default
"""

from __future__ import annotations

import ast
import itertools

from ..cfg import ENTRY, EXIT
from ..effects import FS_WRITE
from ..loader import AnalysisError, FuncInfo, dotted, norm, walk_no_nested
from ..report import Ctx
from ..selftest import Mutant
from .c04 import proxy_fields

PROP = "C03"
RUN = "pipefunc.map._run"
EXPLANATION = (
    "Static analysis of pipefunc/map/_run.py and the storage classes: a sibling differ over the sync/async driver "
    "pairs (normalised call sequences with argument texts), CFG post-dominance for the generation barrier, a "
    "who-may-call rule for completion-order primitives, def-use identity of the submitted and zipped index list, an "
    "exhaustive truth-table evaluation of the source expression guarding the element dump, and a field-rebinding rule "
    "for proxy-backed storages."
)
TRUSTED = ["CPython ast parser", "asyncio.gather and list comprehensions preserve argument order", "Future.result() blocks until that future is done"]
DECLINED = [
    "equality of results across real schedules and pools (needs execution)",
    "'each function invoked exactly once per index' as a count over runs; pickling behaviour of user functions",
]

FORBIDDEN = {"as_completed", "FIRST_COMPLETED", "FIRST_EXCEPTION", "ALL_COMPLETED"}
PAIRS = [("_run_and_process_generation", "_run_and_process_generation_async"), ("_process_generation", "_process_generation_async"), ("_process_task", "_process_task_async")]
# calls that may appear only on the async side: reason
ASYNC_ONLY = {
    "maybe_finalize_slurm_executors": "slurm executors are finalised once per generation in async mode",
    "asyncio.get_event_loop": "needed to wrap concurrent futures",
}


def _calls_seq(fn: FuncInfo) -> list[str]:
    out = []
    for c in [c for c in walk_no_nested(fn.node) if isinstance(c, ast.Call)]:
        name = dotted(c.func)
        if not name or name in ("isinstance", "len", "tuple", "list") or name.startswith(("outputs.", "asyncio.wrap")):
            continue
        args = [norm(a) for a in c.args] + [f"{k.arg}={norm(k.value)}" for k in c.keywords]
        out.append(f"{name}({', '.join(args)})")
    return out


def _normalise(seq: list[str]) -> list[str]:
    out = []
    for s in seq:
        if any(s.startswith(k + "(") for k in ASYNC_ONLY):
            continue
        s = s.replace("_async(", "(").replace(", loop)", ")").replace("multi_run_manager=multi_run_manager", "").replace(", )", ")")
        if s.startswith(("asyncio.gather(", "_result(")):
            s = "RESOLVE-ALL"
        out.append(s)
    # collapse adjacent duplicates of RESOLVE-ALL (gather + per-future wrap)
    return [k for k, _ in itertools.groupby(out)]


def check(ctx: Ctx) -> None:  # noqa: C901, PLR0912, PLR0915
    P, cg = ctx.prog, ctx.cg
    # ------------------------------------------------------------ 1 mirror
    for a, b in PAIRS:
        fa, fb = P.func(f"{RUN}.{a}"), P.func(f"{RUN}.{b}")
        sa, sb = _normalise(_calls_seq(fa)), _normalise(_calls_seq(fb))
        ok = sa == sb
        diff = [x for x in sa if x not in sb] + [x for x in sb if x not in sa]
        ctx.add("1-mirror", fb, fb.node, ok, f"{b} mirrors {a} ({len(sa)} effectful calls)" if ok else f"{b} differs from {a}: {diff[:3]}", key=f"mirror {a}")
        ok = isinstance(fb.node, ast.AsyncFunctionDef) and not isinstance(fa.node, ast.AsyncFunctionDef)
        ctx.add("1-mirror", fb, fb.node, ok, "async def / def" if ok else "the pair is no longer (def, async def)", key=f"kinds {a}")
    rm, rma = P.func(f"{RUN}.run_map"), P.func(f"{RUN}.run_map_async")
    inner = P.func(f"{RUN}.run_map_async._run_pipeline")

    def prep_kwargs(fn: FuncInfo) -> dict[str, str]:
        c = [c for c in ast.walk(fn.node) if isinstance(c, ast.Call) and dotted(c.func) == "prepare_run"]
        if not c:
            raise AnalysisError(f"{fn.qualname}: prepare_run call not found")
        return {k.arg: norm(k.value) for k in c[0].keywords if k.arg}

    ks, ka = prep_kwargs(rm), prep_kwargs(rma)
    allowed = {"parallel": ("parallel", "True"), "in_async": ("False", "True")}
    bad = [k for k in sorted(set(ks) | set(ka)) if ks.get(k) != ka.get(k) and (ks.get(k), ka.get(k)) != allowed.get(k)]
    ident = [k for k, v in ks.items() if k not in allowed and v != k]
    ok = not bad and not ident and set(ks) == set(ka)
    ctx.add("1-mirror", rma, rma.node, ok, f"both drivers forward the same {len(ks)} arguments to prepare_run (only parallel / in_async differ)" if ok else f"prepare_run is called differently by the two drivers: {bad or ident}", key="prepare-args")
    sig_s = [p for p in rm.param_names()]
    sig_a = [p for p in rma.param_names()]
    ok = [p for p in sig_s if p != "parallel"] == sig_a
    ctx.add("1-mirror", rma, rma.node, ok, "same public parameters (async has no `parallel`)" if ok else f"parameter lists differ: {set(sig_s) ^ set(sig_a)}", key="signature")

    def gen_call(fn: FuncInfo, name: str) -> dict[str, str]:
        c = [c for c in ast.walk(fn.node) if isinstance(c, ast.Call) and dotted(c.func) == name]
        if not c:
            raise AnalysisError(f"{fn.qualname}: call of {name} not found")
        return {k.arg: norm(k.value) for k in c[0].keywords if k.arg}

    gs, ga = gen_call(rm, "_run_and_process_generation"), gen_call(inner, "_run_and_process_generation_async")
    ga.pop("multi_run_manager", None)
    ok = gs == ga and gs.get("generation") == "gen" and gs.get("cache") == "pipeline.cache" and gs.get("fixed_indices") == "fixed_indices"
    ctx.add("1-mirror", inner, inner.node, ok, "both generation loops pass the same arguments" if ok else f"generation calls differ: {sorted(set(gs.items()) ^ set(ga.items()))}", key="generation-args")
    for fn in (rm, inner):
        loops = [lp for lp in walk_no_nested(fn.node) if isinstance(lp, ast.For) and "function_lists" in norm(lp.iter)]
        ok = bool(loops) and norm(loops[0].iter) == "pipeline.topological_generations.function_lists"
        ctx.add("1-mirror", fn, loops[0] if loops else fn.node, ok, "iterates the topological generations of the (restricted) pipeline" if ok else "the driver no longer iterates pipeline.topological_generations.function_lists", key="generations")
        rets = [r for r in walk_no_nested(fn.node) if isinstance(r, ast.Return)]
        ok = bool(rets) and norm(rets[-1].value) == "outputs"
        ctx.add("1-mirror", fn, rets[-1] if rets else fn.node, ok, "returns the collected outputs" if ok else "driver return value changed", key="returns-outputs")

    # ------------------------------------------------------------ 2 barrier
    for a in ("_run_and_process_generation", "_run_and_process_generation_async"):
        f = P.func(f"{RUN}.{a}")
        cfg = ctx.cfg(f)
        sub = cfg.nodes(lambda s: any(isinstance(c, ast.Call) and dotted(c.func) == "_submit_generation" for c in ast.walk(s)))
        proc = set(cfg.nodes(lambda s: any(isinstance(c, ast.Call) and dotted(c.func).startswith("_process_generation") for c in ast.walk(s))))
        ok = len(sub) == 1 and bool(proc) and cfg.must_pass(sub[0], EXIT, proc, normal_only=True)
        if ok and a.endswith("_async"):
            ok = all(isinstance(cfg.stmt[p], ast.Expr) and isinstance(cfg.stmt[p].value, ast.Await) for p in proc)
        ctx.add("2-barrier", f, f.node, ok, "the whole generation is processed (awaited) after it was submitted" if ok else "a generation can be left unprocessed / un-awaited before the driver goes on", key="submit-then-process")
    lp = [s for s in walk_no_nested(inner.node) if isinstance(s, ast.For)][0]
    ok = any(isinstance(s, ast.Expr) and isinstance(s.value, ast.Await) and "_run_and_process_generation_async" in norm(s.value) for s in lp.body)
    ctx.add("2-barrier", inner, lp, ok, "each generation is awaited inside the loop" if ok else "generations are started without awaiting the previous one", key="await-in-loop")
    pt, pta = P.func(f"{RUN}._process_task"), P.func(f"{RUN}._process_task_async")
    ok = "outputs_list = [_result(x) for x in r]" in norm(pt.node)
    ctx.add("2-barrier", pt, pt.node, ok, "sync: every future of the function is resolved, in order" if ok else "sync path no longer resolves every future of `r` in order", key="resolve-all-sync")
    ok = "futs = [_result_async(x, loop) for x in r]" in norm(pta.node) and "outputs_list = await asyncio.gather(*futs)" in norm(pta.node)
    ctx.add("2-barrier", pta, pta.node, ok, "async: gather over all futures of the function (argument order)" if ok else "async path does not gather all futures of `r` in submission order", key="resolve-all-async")
    pg = P.func(f"{RUN}._process_generation")
    ok = "for func in generation" in norm(pg.node) and "tasks[func]" in norm(pg.node)
    ctx.add("2-barrier", pg, pg.node, ok, "every function of the generation is processed" if ok else "_process_generation skips functions", key="all-funcs")
    mod = P.module(RUN)
    used = sorted({n.id if isinstance(n, ast.Name) else n.attr for n in ast.walk(mod.tree) if isinstance(n, (ast.Name, ast.Attribute)) and (n.id if isinstance(n, ast.Name) else n.attr) in FORBIDDEN}
                  | {n.attr for n in ast.walk(mod.tree) if isinstance(n, ast.Attribute) and n.attr == "wait" and norm(n.value) in ("asyncio", "concurrent.futures", "futures")})
    ctx.add("2-barrier", RUN, mod.relpath, not used, "no completion-order primitive in map/_run.py" if not used else f"completion-order primitive(s) {used} in map/_run.py: results can be paired with the wrong index", key="no-completion-order")
    sg = P.func(f"{RUN}._submit_generation")
    ok = "for func in generation" in norm(sg.node) and "_submit_func(func, run_info, store, fixed_indices, executor, progress, cache)" in norm(sg.node)
    ctx.add("2-barrier", sg, sg.node, ok, "a generation submits each of its functions once" if ok else "_submit_generation changed", key="submit-each")

    # ------------------------------------------------------------ 3 placement
    sf = P.func(f"{RUN}._submit_func")
    c = [c for c in ast.walk(sf.node) if isinstance(c, ast.Call) and dotted(c.func) == "_maybe_parallel_map"]
    ok = bool(c) and norm(c[0].args[2]) == "args.missing"
    ctx.add("3-placement", sf, c[0] if c else sf.node, ok, "indices submitted = args.missing" if ok else "the submitted index list is not args.missing", key="submitted")
    ot = P.func(f"{RUN}._output_from_mapspec_task")
    z = [c for c in ast.walk(ot.node) if isinstance(c, ast.Call) and dotted(c.func) == "zip" and len(c.args) == 2 and "outputs_list" in norm(c.args[1])]
    ok = bool(z) and norm(z[0].args[0]) == "args.missing"
    ctx.add("3-placement", ot, z[0] if z else ot.node, ok, "results are zipped with the same args.missing" if ok else "results are paired with something other than the submitted index list", key="zipped")
    muts = []
    for fn in P.functions_in(RUN):
        for n in walk_no_nested(fn.node):
            if isinstance(n, ast.Call) and isinstance(n.func, ast.Attribute) and n.func.attr in ("sort", "reverse", "pop", "remove", "append", "extend", "insert", "clear") and norm(n.func.value).endswith(("args.missing", ".missing")):
                muts.append(f"{fn.name}:{n.lineno}")
            if isinstance(n, ast.Call) and dotted(n.func) in ("sorted", "reversed", "set") and n.args and norm(n.args[0]).endswith("args.missing"):
                muts.append(f"{fn.name}:{n.lineno}")
    ctx.add("3-placement", RUN, mod.relpath, not muts, "args.missing is never mutated or reordered" if not muts else f"args.missing is mutated/reordered at {muts}", key="missing-immutable")
    mpm = P.func(f"{RUN}._maybe_parallel_map")
    rets = [norm(r.value) for r in walk_no_nested(mpm.node) if isinstance(r, ast.Return)]
    ok = rets == ["[_submit(process_index, ex, status, progress, i) for i in indices]", "[process_index(i) for i in indices]"]
    ctx.add("3-placement", mpm, mpm.node, ok, "one task per index, in index-list order, parallel and sequential alike" if ok else f"_maybe_parallel_map returns {rets}", key="task-order")
    ura = P.func(f"{RUN}._update_result_array")
    ok = "result_array[index] = _output" in norm(ura.node) and "_set_output(result_array, _output, index, shape, mask)" in norm(ura.node)
    ctx.add("3-placement", ura, ura.node, ok, "each result is stored at its own linear index" if ok else "_update_result_array no longer places by the paired index", key="place-by-index")
    ok = "_update_result_array(args.result_arrays, index, outputs, args.shape, args.mask)" in norm(ot.node) and "_update_array(func, arrays, args.shape, args.mask, index, outputs, in_post_process=True)" in norm(ot.node)
    ctx.add("3-placement", ot, ot.node, ok, "the paired index is used for both the returned array and the storage" if ok else "returned array and storage are updated with different indices", key="same-index-both")

    # ------------------------------------------------------------ 4 one-dump
    ua = P.func(f"{RUN}._update_array")
    guards = [s for s in ast.walk(ua.node) if isinstance(s, ast.If) and any(isinstance(c, ast.Call) and norm(c.func) == "array.dump" for c in ast.walk(s))]
    if not guards:
        raise AnalysisError("_update_array: dump guard not found")
    g = guards[0]
    dumps_in = any(isinstance(c, ast.Call) and norm(c.func) == "array.dump" for c in ast.walk(g))
    names = sorted({norm(n) for n in ast.walk(g.test) if isinstance(n, (ast.Name, ast.Attribute)) and norm(n) in ("force_dump", "in_post_process", "array.dump_in_subprocess")})

    def ev(e: ast.AST, env: dict[str, bool]) -> bool:
        if isinstance(e, ast.BoolOp):
            vals = [ev(v, env) for v in e.values]
            return all(vals) if isinstance(e.op, ast.And) else any(vals)
        if isinstance(e, ast.UnaryOp) and isinstance(e.op, ast.Not):
            return not ev(e.operand, env)
        if isinstance(e, ast.Compare) and len(e.ops) == 1 and isinstance(e.ops[0], (ast.Eq, ast.NotEq, ast.Is, ast.IsNot)):
            l, r = ev(e.left, env), ev(e.comparators[0], env)
            return (l == r) if isinstance(e.ops[0], (ast.Eq, ast.Is)) else (l != r)
        if isinstance(e, ast.Constant):
            return bool(e.value)
        key = norm(e)
        if key in env:
            return env[key]
        raise AnalysisError(f"_update_array: cannot evaluate `{key}` in the dump guard")

    rows = []
    ok = dumps_in and set(names) == {"force_dump", "in_post_process", "array.dump_in_subprocess"}
    if ok:
        for dis in (True, False):
            worker = ev(g.test, {"force_dump": False, "in_post_process": False, "array.dump_in_subprocess": dis})
            parent = ev(g.test, {"force_dump": False, "in_post_process": True, "array.dump_in_subprocess": dis})
            rows.append((dis, worker, parent))
            ok &= (worker != parent) and (worker == dis)
        for dis, ipp in itertools.product((True, False), repeat=2):
            ok &= ev(g.test, {"force_dump": True, "in_post_process": ipp, "array.dump_in_subprocess": dis})
    ctx.add("4-one-dump", ua, g, ok, f"truth table (dump_in_subprocess, worker dumps, parent dumps) = {rows}: exactly one side dumps, the worker iff the storage is cross-process" if ok else
            f"dump-ownership guard `{norm(g.test)}` lets an element be dumped twice or not at all: {rows}", key="guard-table")
    sites = [s for s in cg.call_sites_of(f"{RUN}._update_array") if s.kind == "call"]
    ctxs = sorted((s.caller.name, next((norm(k.value) for k in s.node.keywords if k.arg == "in_post_process"), "?")) for s in sites)
    ok = ctxs == [("_output_from_mapspec_task", "True"), ("_run_iteration_and_process", "False")]
    ctx.add("4-one-dump", ua, ua.node, ok, "two call contexts: worker (in_post_process=False) and parent (True)" if ok else f"call contexts of _update_array are {ctxs}", key="contexts")
    fd_true = []
    for fn in P.functions.values():
        for c in [c for c in walk_no_nested(fn.node) if isinstance(c, ast.Call)]:
            for k in c.keywords:
                if k.arg == "force_dump" and not (isinstance(k.value, ast.Name) and k.value.id == "force_dump") and not (isinstance(k.value, ast.Constant) and k.value.value is False):
                    fd_true.append(fn.qualname)
    ok = fd_true == ["pipefunc.map.adaptive._execute_iteration_in_map_spec"]
    ctx.add("4-one-dump", "force_dump", "", ok, "force_dump=True only from the learner path (which has no parent post-processing)" if ok else f"force_dump is forced from {fd_true}", key="force-dump-callers")
    ok = "array.dump(output_key, _output)" in norm(ua.node) and "output_key = func.mapspec.output_key(external_shape, index)" in norm(ua.node) and "for array, _output in zip(arrays, outputs)" in norm(ua.node)
    ctx.add("4-one-dump", ua, ua.node, ok, "each output array gets its own output at the key of this index" if ok else "_update_array pairs arrays/outputs/key differently", key="dump-pairing")

    # ------------------------------------------------------------ 5 shared
    tainted = proxy_fields(ctx)
    n5 = 0
    for sub in P.subclasses("pipefunc.map._storage_array._base.StorageBase"):
        if "zarr" in sub.module.name:
            continue
        m = P.find_method(sub.qualname, "dump_in_subprocess")
        if m is None:
            continue
        rets = [r for r in walk_no_nested(m.node) if isinstance(r, ast.Return)]
        val = norm(rets[-1].value) if rets else "?"
        n5 += 1
        if val != "True":
            ctx.add("5-shared", sub.qualname, sub.loc, val == "False", f"{sub.name}: parent dumps (process-local storage)", key=f"dis {sub.name}")
            continue
        dmp = P.find_method(sub.qualname, "dump")
        file_backed = dmp is not None and ctx.effects.has(dmp.qualname, FS_WRITE)
        proxy = sub.qualname in tainted
        ctx.add("5-shared", sub.qualname, sub.loc, file_backed or proxy, f"{sub.name}: workers dump into {'files' if file_backed else 'a manager proxy'} that the parent can read" if file_backed or proxy else
                f"{sub.name} lets workers dump but its storage is neither files nor a manager proxy: worker results never reach the parent", key=f"dis {sub.name}")
        for fld in tainted.get(sub.qualname, ()):
            for c in P.mro(sub.qualname):
                for name, meth in c.methods.items():
                    if name == "__init__":
                        continue
                    for s in walk_no_nested(meth.node):
                        tg = s.targets if isinstance(s, ast.Assign) else ([s.target] if isinstance(s, (ast.AnnAssign, ast.AugAssign)) else [])
                        for t in tg:
                            if isinstance(t, ast.Attribute) and norm(t.value) == "self" and t.attr == fld:
                                ctx.add("5-shared", meth, s, False, f"`{norm(s)[:60]}` rebinds self.{fld}, which is the manager proxy shared with the workers in {sub.name}: later worker dumps go to per-process copies and are lost", key=f"rebind {sub.name}.{fld}")
            ctx.add("5-shared", sub.qualname, sub.loc, True, f"{sub.name}: analysed methods for rebinding of self.{fld}", key=f"scan {sub.name}.{fld}")
    ctx.floor("5-shared", n5, 3)

    # ------------------------------------------------------------ 6 executor
    ef = P.func(f"{RUN}._executor_for_func")
    cfg = ctx.cfg(ef)
    rets = set(cfg.nodes(lambda s: isinstance(s, ast.Return)))
    ok = cfg.must_pass(ENTRY, EXIT, rets, normal_only=True)
    ctx.add("6-executor", ef, ef.node, ok, "every normal path returns explicitly (otherwise raises)" if ok else "_executor_for_func can fall off the end (None executor for a parallel run)", key="total")
    tests = [norm(s.test) for s in ef.node.body if isinstance(s, ast.If)]
    ok = tests == ["executor is None", "func.output_name in executor", "'' in executor"]
    ctx.add("6-executor", ef, ef.node, ok, "lookup: no executors -> None; own output name; then the '' default; else error" if ok else f"executor lookup order is {tests}", key="lookup-order")
    from ..cfg import RAISE

    last = ef.node.body[-1]
    ok = isinstance(last, ast.Raise) and RAISE in cfg.reachable_from(ENTRY)
    ctx.add("6-executor", ef, last, ok, "no executor for an output and no default -> error" if ok else "a missing executor entry no longer raises (the function silently runs without its executor)", key="raises")
    me = P.func(f"{RUN}._maybe_executor")
    ok = "executor is None and parallel" in norm(me.node) and "yield {'': new_executor}" in norm(me.node) and norm(me.node).count("yield") == 2
    ctx.add("6-executor", me, me.node, ok, "a default process pool only when parallel and no executor was given" if ok else "_maybe_executor changed", key="default-pool")


R, D = "pipefunc/map/_run.py", "pipefunc/map/_storage_array/_dict.py"
MUTANTS = [
    Mutant("async-as-completed", R, "        outputs_list = await asyncio.gather(*futs)\n", "        outputs_list = [await fut for fut in asyncio.as_completed(futs)]\n", ("C03.2-barrier", "C03.1-mirror"), why="seeded C03/1"),
    Mutant("async-wait-first-exception", R, "        outputs_list = await asyncio.gather(*futs)\n", "        done, _pending = await asyncio.wait(futs, return_when=asyncio.FIRST_EXCEPTION)\n        outputs_list = [f.result() for f in futs]\n", ("C03.2-barrier", "C03.1-mirror"), why="seeded C13/3"),
    Mutant("async-skips-dump-single", R, "        r = await _result_async(task, loop)\n        output = _dump_single_output(func, r, store)\n", "        r = await _result_async(task, loop)\n        output = (r,)\n", ("C03.1-mirror",)),
    Mutant("async-prepare-drops-cleanup", R, "        storage=storage,\n        cleanup=cleanup,\n        fixed_indices=fixed_indices,\n        auto_subpipeline=auto_subpipeline,\n        show_progress=show_progress,\n        in_async=True,\n", "        storage=storage,\n        cleanup=True,\n        fixed_indices=fixed_indices,\n        auto_subpipeline=auto_subpipeline,\n        show_progress=show_progress,\n        in_async=True,\n", ("C03.1-mirror",)),
    Mutant("async-generation-not-awaited", R, "                await _run_and_process_generation_async(\n", "                _run_and_process_generation_async(\n", ("C03.2-barrier",)),
    Mutant("sort-missing-after-submit", R, "    for index, outputs in zip(args.missing, outputs_list):\n", "    for index, outputs in zip(sorted(args.missing, reverse=True), outputs_list):\n", ("C03.3-placement",)),
    Mutant("submit-reversed", R, "        return [_submit(process_index, ex, status, progress, i) for i in indices]\n", "        return [_submit(process_index, ex, status, progress, i) for i in reversed(indices)]\n", ("C03.3-placement",)),
    Mutant("guard-eq", R, "        if force_dump or (array.dump_in_subprocess != in_post_process):\n", "        if force_dump or (array.dump_in_subprocess == in_post_process):\n", ("C03.4-one-dump",)),
    Mutant("guard-and", R, "        if force_dump or (array.dump_in_subprocess != in_post_process):\n", "        if force_dump and (array.dump_in_subprocess != in_post_process):\n", ("C03.4-one-dump",)),
    Mutant("guard-always-worker", R, "        if force_dump or (array.dump_in_subprocess != in_post_process):\n", "        if force_dump or not in_post_process:\n", ("C03.4-one-dump",)),
    Mutant("dict-dumps-in-subprocess", D, "        \"\"\"Indicates if the storage can be dumped in a subprocess and read by the main process.\"\"\"\n        return False\n", "        \"\"\"Indicates if the storage can be dumped in a subprocess and read by the main process.\"\"\"\n        return True\n", ("C03.5-shared",)),
    Mutant("load-rebinds-proxy-F05", D, "        # Update in place to keep the backing mapping (might be a proxy shared with subprocesses)\n        self._dict.update(load(self._path()))\n", "        self._dict = load(self._path())\n", ("C03.5-shared",), why="original F05"),
    Mutant("executor-no-default", R, "    if \"\" in executor:\n        return executor[\"\"]\n    msg = (", "    if \"\" in executor:\n        return executor[\"\"]\n    return None\n    msg = (", ("C03.6-executor",)),
    Mutant("twin-process-task-local", R, "        outputs_list = [_result(x) for x in r]\n        output = _output_from_mapspec_task(func, store, args, outputs_list)\n", "        outputs_list = [_result(x) for x in r]  # resolves every future\n        output = _output_from_mapspec_task(func, store, args, outputs_list)\n", twin=True),
]
