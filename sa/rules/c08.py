"""C08 - MapSpec parsing, printing, shapes and index maps are mutually consistent (structural clauses).

  1 tokens      the separators/literals printed by __str__ are the ones consumed by the parser (', ', '[', ']', ':', '...', '->')
  2 eq-fields   every compared dataclass field of MapSpec/ArraySpec is reconstructed by from_string
  3 all-outputs validation ranges over *all* outputs and compares index *tuples* (order matters), inputs' indices subset of outputs'
  5 shape-path  MapSpec.shape validates ranks first and takes every dimension of a zipped index through _get_common_dim;
                axis positions used to subscript an input *shape* come from `.axes` (':' included), never from `.indices`
  6 one-key     output_key and input_keys share _shape_to_key; index names are paired with key positions in OUTPUT-axis order;
                _shape_to_key is (i // stride) % dim over zip(strides(shape), shape); strides are row-major
  7 revalidate  rename/add_axes build through the constructors; nothing in the package bypasses __post_init__
(clause 4 of the design - "the parser consumes its whole input" - was dropped: the suite pins lenient parsing, see DESIGN.md)
"""

from __future__ import annotations

import ast
import re

from ..loader import AnalysisError, dotted, norm, walk_no_nested
from ..report import Ctx
from ..selftest import Mutant

PROP = "C08"
MOD = "pipefunc.map._mapspec"
EXPLANATION = (
    "Static analysis of pipefunc/map/_mapspec.py: string constants and the regex AST of the printer and parser are "
    "compared as a token table; dataclass field tables are compared with from_string's constructor call; the "
    "quantifier domain of each validation predicate, the def-use origin of every axis position used to subscript a shape, "
    "the iteration source that fixes the order of external_indices, and the arithmetic shape of _shape_to_key / "
    "shape_to_strides are checked structurally."
)
TRUSTED = ["CPython ast parser", "re._parser for the array pattern", "dataclass(compare=False) semantics"]
DECLINED = [
    "bijection / row-major order of output_key as arithmetic over all shapes (value-level)",
    "that input_keys selects exactly the right entries for every spec; validate_consistent_axes / mapspec_axes semantics",
    "rejection of arbitrary malformed text between arrays (the suite pins lenient parsing: test_combining_mapspecs)",
]


def _consts(node: ast.AST) -> list[str]:
    return [c.value for c in ast.walk(node) if isinstance(c, ast.Constant) and isinstance(c.value, str)]


def check(ctx: Ctx) -> None:  # noqa: C901, PLR0912, PLR0915
    P = ctx.prog
    ms = P.cls(f"{MOD}.MapSpec")
    asp = P.cls(f"{MOD}.ArraySpec")

    # ------------------------------------------------------------ 1 tokens
    a_str, m_str = asp.methods["__str__"], ms.methods["__str__"]
    frm = ms.methods["from_string"]
    pia = P.func(f"{MOD}._parse_indexed_arrays")
    pis = P.func(f"{MOD}._parse_index_string")
    printed_a = _consts(a_str.node)
    printed_m = _consts(m_str.node)
    ok = any(c == ", " for c in printed_a) and any("[" in c for c in printed_a) and any("]" in c for c in printed_a)
    ctx.add("1-tokens", a_str, a_str.node, ok, "ArraySpec prints name[i, j]" if ok else "ArraySpec.__str__ no longer prints `name[` + ', '.join + `]`", key="array-print")
    ok = ":" in printed_a and any(isinstance(n, ast.IfExp) and "is None" in norm(n.test) and norm(n.body) == "':'" for n in ast.walk(a_str.node))
    ctx.add("1-tokens", a_str, a_str.node, ok, "a reduced axis (None) prints as ':'" if ok else "None axes are not printed as ':'", key="colon-print")
    ok = any(isinstance(n, ast.IfExp) and norm(n.body) == "None" and "':'" in norm(n.test) and "==" in norm(n.test) or (isinstance(n, ast.IfExp) and norm(n.orelse) == "None" and "!= ':'" in norm(n.test)) for n in ast.walk(pis.node))
    ctx.add("1-tokens", pis, pis.node, ok, "':' parses back to None" if ok else "the index parser does not map ':' to None", key="colon-parse")
    ok = any(c.strip() == "->" for c in printed_m) and any(c == "->" for c in _consts(frm.node))
    ctx.add("1-tokens", frm, frm.node, ok, "'->' printed and split on" if ok else "printer and parser disagree on the '->' separator", key="arrow")
    ok = "..." in printed_m and "..." in _consts(pia.node)
    ctx.add("1-tokens", pia, pia.node, ok, "'...' for no inputs printed and parsed" if ok else "printer and parser disagree on '...'", key="ellipsis")
    split_comma = any(isinstance(c, ast.Call) and isinstance(c.func, ast.Attribute) and c.func.attr == "split" and c.args and norm(c.args[0]) == "','" for c in ast.walk(pis.node))
    stripped = any(isinstance(c, ast.Call) and isinstance(c.func, ast.Attribute) and c.func.attr == "strip" for c in ast.walk(pis.node))
    ctx.add("1-tokens", pis, pis.node, split_comma and stripped, "indices split on ',' and stripped (printer joins with ', ')" if split_comma and stripped else "index strings are not split on ',' + strip", key="comma")
    pats = [c for c in _consts(pia.node) if "\\[" in c]
    if not pats:
        raise AnalysisError("array regex not found in _parse_indexed_arrays")
    try:
        rx = re.compile(pats[0])
        ok = rx.groups == 2 and rx.findall("x.a[i, :], b_1[j]") == [("x.a", "i, :"), ("b_1", "j")]
    except re.error:
        ok = False
    ctx.add("1-tokens", pia, pia.node, ok, "array pattern has groups (name incl. scope, indices) and matches the printed form" if ok else "array pattern no longer captures (scoped name, indices) of the printed form", key="array-pattern")
    ok = "inputs" in norm(m_str.node) and "outputs" in norm(m_str.node) and m_str.node.body and "f'{inputs} -> {outputs}'" in norm(m_str.node.body[-1])
    ctx.add("1-tokens", m_str, m_str.node, bool(ok), "MapSpec prints `inputs -> outputs`" if ok else "MapSpec.__str__ no longer prints inputs before outputs", key="order-print")
    ctor = [c for c in ast.walk(frm.node) if isinstance(c, ast.Call) and norm(c.func) == "cls"]
    ok = bool(ctor) and [norm(a) for a in ctor[0].args] == ["inputs", "outputs"]
    parse_in = any(isinstance(s, ast.Assign) and norm(s.targets[0]) == "inputs" and "in_" in norm(s.value) for s in walk_no_nested(frm.node))
    ctx.add("1-tokens", frm, ctor[0] if ctor else frm.node, ok and parse_in, "from_string builds cls(inputs, outputs) from the left/right side" if ok and parse_in else "from_string swaps or drops the two sides", key="sides")

    # ------------------------------------------------------------ 2 eq-fields
    for cls, built_by in ((ms, ["inputs", "outputs"]), (asp, ["name", "axes"])):
        kw = cls.dataclass_kwargs
        if kw is None:
            raise AnalysisError(f"{cls.qualname} is not a dataclass")
        for fname, ann in cls.fields.items():
            compared = True
            if ann.value is not None and isinstance(ann.value, ast.Call) and dotted(ann.value.func) in ("field", "dataclasses.field"):
                for k in ann.value.keywords:
                    if k.arg == "compare" and isinstance(k.value, ast.Constant) and k.value.value is False:
                        compared = False
            ok = (not compared) or fname in built_by
            ctx.add("2-eq-fields", cls.qualname, f"{cls.module.relpath}:{ann.lineno}", ok,
                    f"`{fname}`: {'rebuilt by the parser' if compared else 'excluded from =='}" if ok else
                    f"`{fname}` takes part in == but is not carried by the string form: from_string(str(m)) != m", key=f"field {fname}")
        ctx.add("2-eq-fields", cls.qualname, cls.loc, kw.get("frozen") is True, "frozen" if kw.get("frozen") is True else "no longer frozen", key="frozen")

    # ------------------------------------------------------------ 3 all-outputs
    post = ms.methods["__post_init__"]
    ifs = [s for s in post.node.body if isinstance(s, ast.If)]
    none_checks = [s for s in ifs if "is None" in norm(s.test) and "axes" in norm(s.test)]
    ok = bool(none_checks) and any(isinstance(g, ast.comprehension) and norm(g.iter) == "self.outputs" for g in ast.walk(none_checks[0].test)) and any(isinstance(x, ast.Raise) for x in none_checks[0].body)
    ctx.add("3-all-outputs", post, none_checks[0] if none_checks else post.node, ok, "':' is rejected in every output" if ok else "':' (None axis) is only rejected in the first output", key="none-in-outputs")
    same = [s for s in ifs if "indices" in norm(s.test) and "self.outputs[1:]" in norm(s.test)]
    ok = False
    detail = "outputs are not required to have identical indices"
    if same:
        cmp_ = [c for c in ast.walk(same[0].test) if isinstance(c, ast.Compare)]
        wrapped = any(isinstance(c, ast.Call) and dotted(c.func) in ("set", "frozenset", "sorted", "len") for x in cmp_ for c in ast.walk(x))
        eq = all(len(c.ops) == 1 and isinstance(c.ops[0], (ast.Eq, ast.NotEq)) for c in cmp_) and bool(cmp_)
        ok = eq and not wrapped and any(isinstance(x, ast.Raise) for x in same[0].body)
        detail = "index tuples compared with order" if ok else "output indices are compared as sets/sorted: outputs with permuted indices are accepted although shape/output_key use outputs[0] only"
    ctx.add("3-all-outputs", post, same[0] if same else post.node, ok, detail, key="identical-indices")
    unused = [s for s in ifs if "unused_indices" in norm(s.test) or ("input_indices" in norm(s.test) and "output_indices" in norm(s.test))]
    ok = bool(unused) and "input_indices - output_indices" in norm(unused[0].test) and any(isinstance(x, ast.Raise) for x in unused[0].body)
    ctx.add("3-all-outputs", post, unused[0] if unused else post.node, ok, "input indices absent from the output are rejected" if ok else "an input index that does not appear in the output is no longer rejected", key="unused-indices")
    apost = asp.methods["__post_init__"]
    n_ident = sum(1 for c in ast.walk(apost.node) if isinstance(c, ast.Call) and isinstance(c.func, ast.Attribute) and c.func.attr == "isidentifier")
    n_raise = sum(1 for c in ast.walk(apost.node) if isinstance(c, ast.Raise))
    ok = n_ident >= 4 and n_raise >= 3
    ctx.add("3-all-outputs", apost, apost.node, ok, "names, scopes and index names must be identifiers" if ok else "identifier validation of names / indices was weakened", key="identifiers")

    # ------------------------------------------------------------ 5 shape-path
    shape = ms.methods["shape"]
    cfg = ctx.cfg(shape)
    from ..cfg import ENTRY, EXIT

    val = set(cfg.nodes(lambda s: any(isinstance(c, ast.Call) and dotted(c.func) == "_validate_shapes" for c in ast.walk(s) if not isinstance(s, (ast.For, ast.If)))))
    loops = cfg.nodes(lambda s: isinstance(s, ast.For))
    ok = bool(val) and bool(loops) and all(cfg.dominates(v, lp) for v in val for lp in loops)
    ctx.add("5-shape-path", shape, shape.node, ok, "ranks are validated before any dimension is read" if ok else "MapSpec.shape reads dimensions without validating ranks first", key="validate-first")
    vs = P.func(f"{MOD}._validate_shapes")
    ok = sum(1 for x in ast.walk(vs.node) if isinstance(x, ast.Raise)) >= 3 and any(isinstance(c, ast.Call) and isinstance(c.func, ast.Attribute) and c.func.attr == "validate" for c in ast.walk(vs.node))
    ctx.add("5-shape-path", vs, vs.node, ok, "extra / missing inputs and wrong ranks raise" if ok else "_validate_shapes lost a rejection", key="validate-raises")
    av = asp.methods["validate"]
    ok = "len(shape) != self.rank" in norm(av.node) and any(isinstance(x, ast.Raise) for x in ast.walk(av.node))
    ctx.add("5-shape-path", av, av.node, ok, "rank mismatch raises" if ok else "ArraySpec.validate no longer compares len(shape) with the rank", key="rank-check")
    rk = asp.methods["rank"]
    ok = norm(rk.node.body[-1]) == "return len(self.axes)"
    ctx.add("5-shape-path", rk, rk.node, ok, "rank counts ':' axes too" if ok else "rank is no longer len(axes)", key="rank-def")
    loop = [s for s in walk_no_nested(shape.node) if isinstance(s, ast.For)][0]
    ok = norm(loop.iter) in ("output.axes", "self.outputs[0].axes", "output.indices") and any(isinstance(c, ast.Call) and dotted(c.func) == "_get_common_dim" for c in ast.walk(loop)) \
        and any(isinstance(c, ast.Call) and dotted(c.func) == "_get_output_dim" for c in ast.walk(loop))
    ctx.add("5-shape-path", shape, loop, ok, "one dimension per output axis: common dim of the inputs sharing it, else the internal shape" if ok else "MapSpec.shape no longer derives each output axis from _get_common_dim / _get_output_dim", key="per-axis")
    rel = [s for s in ast.walk(loop) if isinstance(s, ast.Assign) and norm(s.targets[0]) == "relevant_arrays"]
    ok = bool(rel) and "for x in self.inputs if index in x.indices" in norm(rel[0].value)
    ctx.add("5-shape-path", shape, rel[0] if rel else loop, ok, "every input sharing the index takes part in the dimension check" if ok else "not every input that shares an index is compared", key="relevant-arrays")
    masks = [norm(c) for c in ast.walk(loop) if isinstance(c, ast.Call) and isinstance(c.func, ast.Attribute) and norm(c.func) == "mask.append"]
    ok = masks == ["mask.append(True)", "mask.append(False)"]
    ctx.add("5-shape-path", shape, loop, ok, "mask is True for mapped axes, False for internal ones" if ok else "shape mask polarity changed", key="mask-polarity")
    gcd = P.func(f"{MOD}._get_common_dim")
    ok = any(isinstance(x, ast.Raise) for x in ast.walk(gcd.node)) and any(isinstance(c, ast.Compare) and isinstance(c.ops[0], ast.NotEq) for c in ast.walk(gcd.node))
    ctx.add("5-shape-path", gcd, gcd.node, ok, "zipped dimension mismatch raises" if ok else "_get_common_dim no longer rejects unequal zipped dimensions", key="common-dim-raises")
    # positions used to subscript a shape must come from `.axes`
    n_pos = 0
    for fn in P.functions_in(MOD):
        for sub in [s for s in walk_no_nested(fn.node) if isinstance(s, ast.Subscript)]:
            base = ast.unparse(sub.value)
            if "shape" not in base.lower() or not isinstance(sub.slice, ast.Name):
                continue
            pos = sub.slice.id
            defs = [a for a in walk_no_nested(fn.node) if isinstance(a, ast.Assign) and norm(a.targets[0]) == pos and ".index(" in norm(a.value)]
            for d in defs:
                n_pos += 1
                src = norm(d.value)
                ok = ".axes.index(" in src
                ctx.add("5-shape-path", fn, d, ok, "axis position for a shape lookup comes from `.axes`" if ok else
                        f"`{src}`: the position is taken from the ':'-stripped `.indices` but subscripts a full-rank shape - wrong axis whenever ':' precedes the index", key=f"pos {pos}")
    ctx.floor("5-shape-path.positions", n_pos, 1)

    # ------------------------------------------------------------ 6 one-key
    ok_fn = {}
    for name in ("output_key", "input_keys"):
        f = ms.methods[name]
        calls = [c for c in ast.walk(f.node) if isinstance(c, ast.Call) and dotted(c.func) == "_shape_to_key"]
        ok = len(calls) == 1 and [norm(a) for a in calls[0].args] == ["shape", "linear_index"]
        ok_fn[name] = ok
        ctx.add("6-one-key", f, calls[0] if calls else f.node, ok, f"{name} decomposes the linear index with _shape_to_key(shape, linear_index)" if ok else f"{name} does not use _shape_to_key(shape, linear_index)", key=f"{name} uses _shape_to_key")
        rank = [s for s in f.node.body if isinstance(s, ast.If) and "len(shape)" in norm(s.test) and any(isinstance(x, ast.Raise) for x in s.body)]
        ctx.add("6-one-key", f, rank[0] if rank else f.node, bool(rank), f"{name} rejects a shape of the wrong rank" if rank else f"{name} no longer checks the rank of `shape`", key=f"{name} rank")
    ik = ms.methods["input_keys"]
    ids = [s for s in walk_no_nested(ik.node) if isinstance(s, ast.Assign) and norm(s.targets[0]) == "ids"]
    ok = bool(ids) and norm(ids[0].value) == "dict(zip(self.external_indices, key))"
    ctx.add("6-one-key", ik, ids[0] if ids else ik.node, ok, "index names are paired with the key positions" if ok else "input_keys no longer pairs external_indices with the key", key="ids")
    ret = [r for r in walk_no_nested(ik.node) if isinstance(r, ast.Return)][-1]
    ok = "slice(None) if ax is None else ids[ax] for ax in x.axes" in norm(ret) and "for x in self.inputs" in norm(ret)
    ctx.add("6-one-key", ik, ret, ok, "each input axis: full slice for ':' else the index value, in the input's own axis order" if ok else "input key construction changed (':' / axis order)", key="input-key-build")
    ext = ms.methods["external_indices"]
    gens = [g for g in ast.walk(ext.node) if isinstance(g, ast.comprehension)]
    src_ok = bool(gens) and norm(gens[0].iter) in ("self.output_indices", "self.outputs[0].indices", "self.outputs[0].axes")
    filt_ok = bool(gens) and any("self.input_indices" in norm(i) for i in gens[0].ifs)
    loops_ext = [s for s in walk_no_nested(ext.node) if isinstance(s, ast.For)]
    ok = src_ok and filt_ok and not loops_ext
    ctx.add("6-one-key", ext, ext.node, ok, "external_indices keeps OUTPUT-axis order (the order of the key positions)" if ok else
            "external_indices is not ordered like the output axes: input_keys and output_key disagree about which index a key position denotes (e.g. 'x[i, j] -> z[j, i]')", key="external-order")
    oi = ms.methods["output_indices"]
    ok = norm(oi.node.body[-1]) == "return self.outputs[0].indices"
    ctx.add("6-one-key", oi, oi.node, ok, "output_indices = indices of the first output" if ok else "output_indices changed", key="output-indices")
    ai = asp.methods["indices"]
    ok = norm(ai.node.body[-1]) == "return tuple((x for x in self.axes if x is not None))"
    ctx.add("6-one-key", ai, ai.node, ok, "indices = axes without None, in order" if ok else "ArraySpec.indices no longer preserves axis order", key="indices-def")
    stk = P.func(f"{MOD}._shape_to_key")
    ret = [r for r in walk_no_nested(stk.node) if isinstance(r, ast.Return)][-1]
    gen = next((g for g in ast.walk(ret) if isinstance(g, ast.GeneratorExp)), None)
    ok = False
    if gen is not None and isinstance(gen.elt, ast.BinOp) and isinstance(gen.elt.op, ast.Mod) and isinstance(gen.elt.left, ast.BinOp) and isinstance(gen.elt.left.op, ast.FloorDiv):
        tgt = gen.generators[0].target
        it = gen.generators[0].iter
        if isinstance(tgt, ast.Tuple) and len(tgt.elts) == 2 and isinstance(it, ast.Call) and dotted(it.func) == "zip" and len(it.args) == 2:
            s_name, d_name = norm(tgt.elts[0]), norm(tgt.elts[1])
            ok = norm(gen.elt.left.left) == "linear_index" and norm(gen.elt.left.right) == s_name and norm(gen.elt.right) == d_name \
                and norm(it.args[0]) == "shape_to_strides(shape)" and norm(it.args[1]) == "shape"
    ctx.add("6-one-key", stk, ret, ok, "key[k] = (linear // stride_k) % dim_k over zip(strides(shape), shape)" if ok else "_shape_to_key is no longer (linear // stride) % dim over zip(shape_to_strides(shape), shape)", key="shape-to-key")
    sts = P.func(f"{MOD}.shape_to_strides")
    fors = [s for s in walk_no_nested(sts.node) if isinstance(s, ast.For)]
    ok = len(fors) == 2 and norm(fors[0].iter) == "range(len(shape))" and norm(fors[1].iter) == "range(i + 1, len(shape))" and "product *= shape[j]" in norm(fors[1])
    ctx.add("6-one-key", sts, fors[1] if len(fors) > 1 else sts.node, ok, "stride_i = product of the FOLLOWING dimensions (row-major)" if ok else "shape_to_strides is no longer the product over the following dimensions", key="row-major-strides")

    # ------------------------------------------------------------ 7 revalidate
    for cls, names in ((ms, ("add_axes", "rename")), (asp, ("add_axes",))):
        for nm in names:
            f = cls.methods[nm]
            for r in [r for r in walk_no_nested(f.node) if isinstance(r, ast.Return) and r.value is not None]:
                t = norm(r.value)
                ok = t.startswith(("MapSpec(", "ArraySpec(")) or t == "self"
                ctx.add("7-revalidate", f, r, ok, "returns through the validating constructor" if ok else f"`{t[:50]}` bypasses the constructor", key=f"{nm} {t[:40]}")
    bypass = []
    for m in P.modules.values():
        for n in ast.walk(m.tree):
            if isinstance(n, ast.Call) and dotted(n.func) in ("object.__setattr__", "object.__new__") or (isinstance(n, ast.Call) and isinstance(n.func, ast.Attribute) and n.func.attr == "__new__" and "Spec" in ast.unparse(n)):
                bypass.append(f"{m.relpath}:{n.lineno}")
    ctx.add("7-revalidate", "pipefunc", "", not bypass, "no object.__setattr__/__new__ bypass anywhere in the package" if not bypass else f"constructor bypass at {bypass}", key="no-bypass")
    aa = asp.methods["add_axes"]
    ok = any(isinstance(x, ast.Raise) for x in ast.walk(aa.node)) and "self.axes + axis" in norm(aa.node)
    ctx.add("7-revalidate", aa, aa.node, ok, "add_axes appends and rejects duplicates" if ok else "ArraySpec.add_axes no longer appends at the end / rejects duplicate axes", key="add-axes")
    rn = ms.methods["rename"]
    ok = "ArraySpec(renames.get(spec.name, spec.name), spec.axes)" in norm(rn.node) and "map(_rename, self.inputs)" in norm(rn.node) and "map(_rename, self.outputs)" in norm(rn.node)
    ctx.add("7-revalidate", rn, rn.node, ok, "rename maps names only, inputs and outputs alike, axes untouched" if ok else "rename changed (axes altered or a side not renamed)", key="rename")


F = "pipefunc/map/_mapspec.py"
MUTANTS = [
    Mutant("print-semicolon", F, 'return f"{self.name}[{\', \'.join(indices)}]"', 'return f"{self.name}[{\'; \'.join(indices)}]"', ("C08.1-tokens",)),
    Mutant("colon-not-parsed", F, 'return tuple(i if i != ":" else None for i in indices)', "return tuple(i for i in indices)", ("C08.1-tokens",)),
    Mutant("from-string-swapped", F, "        return cls(inputs, outputs)\n", "        return cls(outputs, inputs)\n", ("C08.1-tokens",)),
    Mutant("is-generated-compared-F11", F, "_is_generated: bool = field(default=False, compare=False)", "_is_generated: bool = False", ("C08.2-eq-fields",), why="original F11"),
    Mutant("none-first-output-only-F12", F, "if any(x is None for output in self.outputs for x in output.axes):", "if any(x is None for x in self.outputs[0].axes):", ("C08.3-all-outputs",), why="original F12"),
    Mutant("indices-as-sets", F, "if not all(x.indices == self.outputs[0].indices for x in self.outputs[1:]):", "if not all(set(x.indices) == set(self.outputs[0].indices) for x in self.outputs[1:]):", ("C08.3-all-outputs",), why="seeded C08/3"),
    Mutant("unused-index-accepted", F, "        if unused_indices := input_indices - output_indices:\n", "        if unused_indices := set():\n", ("C08.3-all-outputs",)),
    Mutant("shape-no-validate", F, "        _validate_shapes(input_names, input_shapes, self.inputs, internal_shapes, self.output_names)\n", "", ("C08.5-shape-path",)),
    Mutant("get-dim-from-indices", F, "        axis = array.axes.index(index)\n", "        axis = array.indices.index(index)\n", ("C08.5-shape-path",), why="seeded C08/2"),
    Mutant("common-dim-no-raise", F, "    if any(dim != x for x in rest):\n", "    if False:\n", ("C08.5-shape-path",)),
    Mutant("mask-polarity", F, "                shape.append(dim)\n                mask.append(True)\n", "                shape.append(dim)\n                mask.append(False)\n", ("C08.5-shape-path",)),
    Mutant("external-indices-input-order", F, "return tuple(n for n in self.output_indices if n in self.input_indices)",
           "return tuple(dict.fromkeys(i for x in self.inputs for i in x.indices))", ("C08.6-one-key",), why="seeded C08/1"),
    Mutant("shape-to-key-swapped", F, "(linear_index // stride) % dim for stride, dim in zip(shape_to_strides(shape), shape)", "(linear_index // dim) % stride for stride, dim in zip(shape_to_strides(shape), shape)", ("C08.6-one-key",)),
    Mutant("strides-include-self", F, "for j in range(i + 1, len(shape)):", "for j in range(i, len(shape)):", ("C08.6-one-key",)),
    Mutant("input-keys-own-decomposition", F, "        key = _shape_to_key(shape, linear_index)\n        ids = dict", "        key = tuple(int(k) for k in np.unravel_index(linear_index, shape, order=\"F\"))\n        ids = dict", ("C08.6-one-key",)),
    Mutant("rename-bypasses-ctor", F, "        return MapSpec(tuple(map(_rename, self.inputs)), tuple(map(_rename, self.outputs)))\n",
           "        new = object.__new__(MapSpec)\n        object.__setattr__(new, \"inputs\", tuple(map(_rename, self.inputs)))\n        object.__setattr__(new, \"outputs\", tuple(map(_rename, self.outputs)))\n        object.__setattr__(new, \"_is_generated\", self._is_generated)\n        return new\n", ("C08.7-revalidate",)),
    Mutant("twin-post-init-local", F, "        output_indices = set(self.outputs[0].indices)\n", "        output_indices = set(self.output_indices)\n", twin=True),
    Mutant("twin-shape-comment", F, "        output = self.outputs[0]  # All outputs have the same shape\n", "        output = self.outputs[0]\n", twin=True),
]
