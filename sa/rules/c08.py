"""C08 - MapSpec parsing, printing, shapes and index maps are mutually consistent (structural clauses).

  1 tokens      the separators/literals printed by __str__ are the ones consumed by the parser (', ', '[', ']', ':', '...', '->')
  2 eq-fields   every compared dataclass field of MapSpec/ArraySpec is reconstructed by from_string
  3 all-outputs validation ranges over *all* outputs and compares index *tuples* (order matters), inputs' indices subset of outputs'
  5 shape-path  MapSpec.shape validates ranks first and takes every dimension of a zipped index through _get_common_dim;
                axis positions used to subscript an input *shape* come from `.axes` (':' included), never from `.indices`
  6 one-key     output_key and input_keys share _shape_to_key; index names are paired with key positions in OUTPUT-axis order;
                _shape_to_key is (i // stride) % dim over zip(strides(shape), shape); strides are row-major
  7 revalidate  rename/add_axes build through the constructors; nothing in the package bypasses __post_init__
(clause 4 of the design - "the parser consumes its whole input" - was dropped: the suite pins lenient parsing, see DESIGN.md)
"""

from __future__ import annotations

import ast
import re

from ..flow import reach_rejections, Defs, Scope, cond, guards, iterations, nnf, rejections, guard_facts
from ..loader import AnalysisError, FuncInfo, dotted, norm, walk_no_nested
from ..report import Ctx
from ..selftest import Mutant

PROP = "C08"
TECHNIQUE = "static analysis: rejection-fact extraction (conditions and quantifier domains of every raise) + printer/parser token tables + def-use origin of shape positions + role analysis of the stride arithmetic + whole-domain rules (strided comparisons, filtered parser comprehensions, single-arrow split) + element-domain tracing of the rank validator's receiver (whole self.inputs vs a restriction) + no-glue (blank deletion) rule + whole-domain rule for input_keys + None-only exemption from the identifier test + total rename + no early return ahead of rejections + tuple-typed spec fields + shapes looked up by name + simultaneous-renaming rule (no accumulation in a loop over the renames)"
MOD = "pipefunc.map._mapspec"
EXPLANATION = (
    "Static analysis of pipefunc/map/_mapspec.py: string constants and the regex AST of the printer and parser are "
    "compared as a token table; dataclass field tables are compared with from_string's constructor call; the "
    "quantifier domain of each validation predicate, the def-use origin of every axis position used to subscript a shape, "
    "the iteration source that fixes the order of external_indices, and the arithmetic shape of _shape_to_key / "
    "shape_to_strides are checked structurally."
)
TRUSTED = ["CPython ast parser", "re._parser for the array pattern", "dataclass(compare=False) semantics"]
DECLINED = [
    "bijection / row-major order of output_key as arithmetic over all shapes (value-level)",
    "that input_keys selects exactly the right entries for every spec; validate_consistent_axes / mapspec_axes semantics",
    "rejection of arbitrary malformed text between arrays (the suite pins lenient parsing: test_combining_mapspecs)",
]


def _consts(nodes) -> list[str]:
    return [c.value for n in nodes for c in ast.walk(n) if isinstance(c, ast.Constant) and isinstance(c.value, str)]


def _scope_nodes(ctx: Ctx, fn: FuncInfo, wide: bool = False) -> list[ast.AST]:
    """The function, the private helpers it uses, and the module-level constants they name (`wide`: also the public methods of
    its class that it calls - `__str__` may delegate to `to_string` or the other way round)."""
    sc = Scope(ctx, fn, wide=wide)
    nodes: list[ast.AST] = [f.node for f in sc.funcs]
    mod = ctx.prog.module(MOD)
    _ = mod
    nodes += sc.const_nodes()  # module-level tables the scope names, and the tables those are computed from
    # public module functions called by name (the parser helpers are private, _parse_*, but be generous)
    for _f, c in sc.calls(*[name for name in ("_parse_indexed_arrays", "_parse_index_string")]):
        pass
    return nodes


def _join_separators(nodes) -> set[str]:
    return {c.func.value.value for n in nodes for c in ast.walk(n) if isinstance(c, ast.Call) and isinstance(c.func, ast.Attribute) and c.func.attr == "join"
            and isinstance(c.func.value, ast.Constant) and isinstance(c.func.value.value, str)}


def _split_args(nodes) -> set[str]:
    return {c.args[0].value for n in nodes for c in ast.walk(n) if isinstance(c, ast.Call) and isinstance(c.func, ast.Attribute) and c.func.attr == "split" and c.args
            and isinstance(c.args[0], ast.Constant) and isinstance(c.args[0].value, str)}


def rule_tokens(ctx: Ctx) -> None:  # noqa: C901
    P = ctx.prog
    ms, asp = P.cls(f"{MOD}.MapSpec"), P.cls(f"{MOD}.ArraySpec")
    a_str, m_str, frm = asp.methods["__str__"], ms.methods["__str__"], ms.methods["from_string"]
    pr_a, pr_m, ps = _scope_nodes(ctx, a_str, wide=True), _scope_nodes(ctx, m_str, wide=True), _scope_nodes(ctx, frm)
    joins, splits = _join_separators(pr_a), _split_args(ps)
    ctx.tri("1-tokens", a_str, a_str.node, bool(joins) and bool(splits) and {j.strip() for j in joins} <= splits, bool(joins) and bool(splits) and not ({j.strip() for j in joins} & splits),
            "indices are joined with ', ' and split on ',' (+strip)", f"the printer joins indices with {sorted(joins)} but the parser splits on {sorted(splits)}: from_string(str(m)) fails or differs", "index separator not recognised", key="comma")
    stripped = any(isinstance(c, ast.Call) and isinstance(c.func, ast.Attribute) and c.func.attr == "strip" for n in ps for c in ast.walk(n))
    ctx.tri("1-tokens", frm, frm.node, stripped, False, "split parts are stripped (the printer emits ', ')", "", "no .strip() in the parser", key="strip")
    # whitespace is removed AROUND a slot (strip), never inside it: deleting all blanks glues `a[i j]` (a forgotten comma) together
    # into the identifier `ij` - a non-identifier slot is accepted at the wrong rank instead of rejected
    glue = [c for n in ps for c in ast.walk(n) if isinstance(c, ast.Call) and ((isinstance(c.func, ast.Attribute) and c.func.attr == "replace" and len(c.args) == 2 and isinstance(c.args[0], ast.Constant)
            and isinstance(c.args[0].value, str) and c.args[0].value.strip() == "" and c.args[0].value != "" and isinstance(c.args[1], ast.Constant) and c.args[1].value == "")
            or (dotted(c.func) in ("re.sub",) and c.args and isinstance(c.args[0], ast.Constant) and str(c.args[0].value) in (r"\s", r"\s+", " ", " +") and len(c.args) > 1 and isinstance(c.args[1], ast.Constant) and c.args[1].value == "")
            or (isinstance(c.func, ast.Attribute) and c.func.attr == "join" and isinstance(c.func.value, ast.Constant) and c.func.value.value == "" and any(isinstance(x, ast.Call) and isinstance(x.func, ast.Attribute) and x.func.attr == "split" and not x.args for x in ast.walk(c))))]
    ctx.add("1-tokens", frm, glue[0] if glue else frm.node, not glue, "the parser never deletes blanks inside a slot" if not glue else
            f"`{norm(glue[0])[:50]}` deletes every blank of the index list before it is split: `a[i j]` (a dropped comma) becomes the single identifier `ij` and parses at the wrong rank instead of being rejected", key="no-glue")
    for tok, what in ((":", "a reduced axis (None)"), ("...", "no inputs"), ("[", "the index list")):
        in_print = any(tok == c or (tok in c and tok in ("[",)) for c in _consts(pr_a + pr_m))
        in_parse = any(tok == c or (tok == "[" and "\\[" in c) for c in _consts(ps))
        ctx.tri("1-tokens", frm, frm.node, in_print and in_parse, in_print != in_parse, f"`{tok}` ({what}) is printed and understood by the parser",
                f"`{tok}` ({what}) is {'printed but never looked for by the parser' if in_print else 'expected by the parser but never printed'}: the printed form does not parse back to an equal MapSpec", key=f"token {tok}")
    # every comma-separated slot of an index list is an axis: the parser's comprehensions over the split parts have no filter
    # (a dropped empty slot shifts the following axes: `a[, j]` would silently parse as the rank-1 `a[j]`)
    n_tot = 0
    for f_ in Scope(ctx, frm, wide=True).funcs:
        fd_ = Defs(f_)
        for it in iterations(f_.node):
            src = norm(fd_.resolve(it["iter"]))
            if ".split(" not in src and not any(".split(" in norm(fd_.resolve(g.iter)) for g in getattr(it["node"], "generators", [])):
                continue
            n_tot += 1
            ctx.add("1-tokens", f_, it["node"], not it["filters"], "every split part becomes a token" if not it["filters"] else
                    f"split parts are filtered (`if {it['filters'][0][0][:40]}`): an empty slot is dropped instead of rejected, so `a[, j]` parses as `a[j]` and the printed form is not what was written", key=f"total {f_.name}")
    ctx.floor("1-tokens.total", n_tot, 1)
    # exactly one arrow: the two halves come from a split that fails for 0 or >= 2 arrows
    fdm = Defs(frm)
    halves = [c for c in ast.walk(frm.node) if isinstance(c, ast.Call) and isinstance(c.func, ast.Attribute) and c.func.attr in ("split", "partition", "rpartition", "rsplit") and c.args and isinstance(c.args[0], ast.Constant) and "->" in str(c.args[0].value)]
    if halves:
        h = halves[0]
        tolerant = h.func.attr in ("partition", "rpartition") or len(h.args) > 1 or any(k.arg == "maxsplit" for k in h.keywords)
        par_h = {id(c): p_ for p_ in ast.walk(frm.node) for c in ast.iter_child_nodes(p_)}
        up = par_h.get(id(h))
        exact = h.func.attr == "split" and not tolerant and isinstance(up, ast.Assign) and isinstance(up.targets[0], ast.Tuple) and len(up.targets[0].elts) == 2
        ctx.tri("1-tokens", frm, h, exact, tolerant, "the expression is split on '->' into exactly two halves (0 or several arrows raise)",
                f"`{norm(h)}` tolerates several '->': 'a[i] -> b[i] -> c[i]' is accepted and parsed as something the user did not write", "arrow split not recognised", key="one-arrow")
        _ = fdm
    arrow_p = any(c.strip() == "->" for c in _consts(pr_m))
    arrow_s = "->" in {x.strip() for x in _split_args(ps)} or any("->" in c for c in _consts(ps))
    ctx.tri("1-tokens", frm, frm.node, arrow_p and arrow_s, arrow_p != arrow_s, "'->' printed and split on", "printer and parser disagree on the '->' separator", key="arrow")
    pats = [c for c in _consts(ps) if "\\[" in c]
    if pats:
        try:
            rx = re.compile(pats[0])
            ok = rx.groups == 2 and rx.findall("x.a[i, :], b_1[j]") == [("x.a", "i, :"), ("b_1", "j")]
        except re.error:
            ok = False
        ctx.add("1-tokens", frm, frm.node, ok, "array pattern has groups (name incl. scope, indices) and matches the printed form" if ok else f"array pattern `{pats[0]}` does not capture (scoped name, indices) of the printed form `x.a[i, :], b_1[j]`", key="array-pattern")
    else:
        ctx.add("1-tokens", frm, frm.node, None, "UNDECIDED: array regex not found", key="array-pattern")
    # printing order: inputs before outputs
    d = Defs(m_str)
    for r in [r for r in walk_no_nested(m_str.node) if isinstance(r, ast.Return) and r.value is not None]:
        if isinstance(r.value, ast.JoinedStr):
            vals = [norm(d.resolve(v.value)) for v in r.value.values if isinstance(v, ast.FormattedValue)]
            defs_all = {nm: " ".join(norm(x.value) for x in ast.walk(m_str.node) if isinstance(x, ast.Assign) and any(isinstance(t, ast.Name) and t.id == nm for t in x.targets)) for nm in vals}
            sides = ["in" if "self.inputs" in (v + defs_all.get(v, "")) else ("out" if "self.outputs" in (v + defs_all.get(v, "")) else "?") for v in vals]
            ctx.tri("1-tokens", m_str, r, sides == ["in", "out"], sides == ["out", "in"], "MapSpec prints `inputs -> outputs`", "MapSpec.__str__ prints the outputs before the inputs", f"printed parts {sides} not recognised", key="order-print")
    # from_string: left of '->' becomes inputs, right becomes outputs
    fd = Defs(frm)
    halves = [s_ for s_ in walk_no_nested(frm.node) if isinstance(s_, ast.Assign) and isinstance(s_.targets[0], ast.Tuple) and len(s_.targets[0].elts) == 2 and "split" in norm(s_.value)]
    ctor = [c for c in ast.walk(frm.node) if isinstance(c, ast.Call) and norm(c.func) in ("cls", "MapSpec") and len(c.args) >= 2]
    if halves and ctor:
        left, right = (norm(e) for e in halves[0].targets[0].elts)
        a0, a1 = norm(fd.resolve(ctor[0].args[0])), norm(fd.resolve(ctor[0].args[1]))
        has = lambda t, nm: re.search(rf"\b{re.escape(nm)}\b", t) is not None  # noqa: E731
        ctx.tri("1-tokens", frm, ctor[0], has(a0, left) and has(a1, right) and not has(a0, right), has(a0, right) and has(a1, left),
                "from_string builds (inputs, outputs) from the left/right side of '->'", "from_string passes the right-hand side as inputs and the left-hand side as outputs", key="sides")
    else:
        ctx.add("1-tokens", frm, frm.node, None, "UNDECIDED: split into two halves / constructor call not recognised", key="sides")


def rule_eq_fields(ctx: Ctx) -> None:
    P = ctx.prog
    for cls, built_by in ((P.cls(f"{MOD}.MapSpec"), ["inputs", "outputs"]), (P.cls(f"{MOD}.ArraySpec"), ["name", "axes"])):
        kw = cls.dataclass_kwargs
        if kw is None:
            raise AnalysisError(f"{cls.qualname} is not a dataclass", fatal=True)
        for fname, ann in cls.fields.items():
            compared = True
            if ann.value is not None and isinstance(ann.value, ast.Call) and dotted(ann.value.func) in ("field", "dataclasses.field"):
                for k in ann.value.keywords:
                    if k.arg == "compare" and isinstance(k.value, ast.Constant) and k.value.value is False:
                        compared = False
            ok = (not compared) or fname in built_by
            ctx.add("2-eq-fields", cls.qualname, f"{cls.module.relpath}:{ann.lineno}", ok,
                    f"`{fname}`: {'rebuilt by the parser' if compared else 'excluded from =='}" if ok else
                    f"`{fname}` takes part in == but is not carried by the string form: from_string(str(m)) != m", key=f"field {fname}")
        ctx.add("2-eq-fields", cls.qualname, cls.loc, kw.get("frozen") is True, "frozen" if kw.get("frozen") is True else "no longer frozen", key="frozen")


def rule_all_outputs(ctx: Ctx) -> None:
    P = ctx.prog
    ms, asp = P.cls(f"{MOD}.MapSpec"), P.cls(f"{MOD}.ArraySpec")
    post = ms.methods["__post_init__"]
    rej = reach_rejections(ctx, post)
    # ':' in outputs
    none_rej = [r for r in rej if any(re.fullmatch(r"\w+ is None|None in [\w.\[\]]+\.axes", c) for c in r["conds"][-1:])]
    whole = [r for r in none_rej if any(norm(i) == "self.outputs" for _t, i in r["iters"])]
    first_only = [r for r in none_rej if any("self.outputs[0]" in norm(i) for _t, i in r["iters"]) or any("self.outputs[0]" in c for c in r["conds"][-1:])]
    # some other test over every output (e.g. `len(o.indices) != len(o.axes)`) may say the same thing: not judged
    other_over_outputs = [r for r in rej if r not in none_rej and any(norm(i) == "self.outputs" for _t, i in r["iters"])]
    ctx.tri("3-all-outputs", post, (first_only or whole or [{"node": post.node}])[0]["node"], bool(whole), (bool(first_only) and not whole) or (not none_rej and not other_over_outputs),
            "':' is rejected in every output", "':' (None axis) is only rejected in the first output" if first_only else "':' (None axis) in an output is not rejected", key="none-in-outputs")
    # order-insensitive: set / sorted / len applied TO an index tuple; a set OF whole index tuples (`len({o.indices for o in outputs}) > 1`)
    # still compares them with order
    applied_to_tuple = re.compile(r"\b(set|sorted|frozenset|len)\(\s*[\w.\[\]]*\.indices\s*\)")
    set_of_tuples = re.compile(r"len\(\s*(\{|set\()\s*[\w.\[\]]*\.indices\s+for\b")
    same = [r for r in rej if any(".indices" in c and ("!=" in c or set_of_tuples.search(c)) for c in r["conds"][-1:])]
    loose = [r for r in rej if any(".indices" in c and applied_to_tuple.search(c) for c in r["conds"][-1:])]
    strict = [r for r in same if r not in loose]
    ctx.tri("3-all-outputs", post, (loose or strict or [{"node": post.node}])[0]["node"], bool(strict), bool(loose),
            "index tuples of all outputs are compared with order", "output indices are compared as sets/sorted/lengths: outputs with permuted indices are accepted although shape/output_key use outputs[0] only",
            "comparison of the outputs' indices not recognised", key="identical-indices")
    unused = [r for r in rej if any(" - " in c and "indices" in c for c in r["conds"][-1:]) or any("unused" in c for c in r["conds"][-1:])]
    ctx.tri("3-all-outputs", post, (unused or [{"node": post.node}])[0]["node"], bool(unused), False, "input indices absent from the output are rejected", "", "rejection of unused input indices not recognised", key="unused-indices")
    apost = asp.methods["__post_init__"]
    n_ident = sum(1 for c in ast.walk(apost.node) if isinstance(c, ast.Call) and isinstance(c.func, ast.Attribute) and c.func.attr == "isidentifier")
    n_raise = len([r for r in rejections(ctx.cfg(apost), apost.node) if not r["dead"]])
    ctx.tri("3-all-outputs", apost, apost.node, n_ident >= 4 and n_raise >= 3, n_ident == 0 or n_raise == 0, "names, scopes and index names must be identifiers", "identifier validation of names / indices is gone", f"{n_ident} isidentifier() tests, {n_raise} rejections", key="identifiers")

    # the ONLY index name exempt from the identifier test is None (':'): a truthiness test also exempts the empty name ''
    ax_rej = [r for r in rejections(ctx.cfg(apost), apost.node, Defs(apost)) if not r["dead"] and any(norm(i) == "self.axes" for _t, i in r["iters"]) and any("isidentifier" in c for c in r["conds"][-1:])]
    for r in ax_rej:
        var = next(t for t, i in r["iters"] if norm(i) == "self.axes")
        last = r["conds"][-1]
        if last.startswith("(") and last.endswith(")"):
            last = last[1:-1]
        parts = [p_.strip() for p_ in last.split(" and ")]
        exact = f"{var} is not None" in parts
        truthy = var in parts or f"bool({var})" in parts or f"len({var}) > 0" in parts or f"{var} != ''" in parts
        ctx.tri("3-all-outputs", apost, r["node"], exact and not truthy, truthy, "an index name is exempt from the identifier test only when it is None (':')",
                f"`{last[:70]}` exempts every FALSY index name from the identifier test, not only None: the empty name '' (\"a[i, ]\", ArraySpec('a', ('',))) is accepted as an index",
                f"exemption in `{last[:60]}` not recognised", key="none-only-exempt")
    # rename is total on well-formed specs: a simultaneous renaming (swap, chain) never collides with a CURRENT name
    rn = ms.methods["rename"]
    direct = [r for r in rejections(ctx.cfg(rn), rn.node, Defs(rn)) if not r["dead"]]
    # (a rejection that does not ask whether a name is among the current names is something else: not judged)
    collide = [r for r in direct if any(" in " in c_ and "not in" not in c_.replace("renames", "") for c_ in r["conds"])]
    ctx.add("3-all-outputs", rn, direct[0]["node"] if direct else rn.node, (not direct) if (not direct or collide) else None, "MapSpec.rename itself refuses nothing (the constructor validates the result)" if not direct else
            (f"UNDECIDED: MapSpec.rename refuses `{' and '.join(direct[0]['conds'])[:80]}`, which this rule cannot classify" if not collide else "") +
            f"MapSpec.rename refuses `{' and '.join(direct[0]['conds'])[:90]}`: renames are simultaneous, a new name may equal a name that is renamed away in the same call (a swap `{{a: b, b: a}}` or a chain) - "
            "a well-formed spec and a renaming with a well-formed result is rejected", key="rename-total")
    # ... and it is applied in ONE pass over the current names: a loop over the entries of `renames` that feeds the spec renamed so
    # far into the next entry applies them one after the other - a chain {a: b, b: c} sends `a` to `c`, a swap collapses both names
    rprm = [p_ for p_ in rn.param_names() if p_ != "self"][:1]
    seq = []
    for f_ in Scope(ctx, rn).funcs:
        for lp in [lp for lp in walk_no_nested(f_.node) if isinstance(lp, ast.For) and rprm and re.fullmatch(rf"{re.escape(rprm[0])}(\.items\(\)|\.keys\(\))?", norm(Defs(f_).resolve(lp.iter)))]:
            for a_ in [a_ for b_ in lp.body for a_ in ast.walk(b_) if isinstance(a_, ast.Assign)]:
                for t in [t for t in a_.targets if isinstance(t, ast.Name)]:
                    if any(isinstance(x, ast.Name) and x.id == t.id for x in ast.walk(a_.value)) and not isinstance(a_.value, (ast.Name, ast.Constant)):
                        seq.append(a_)
    one_pass = any(isinstance(c, ast.Call) and isinstance(c.func, ast.Attribute) and c.func.attr == "get" and rprm and norm(c.func.value) == rprm[0] and len(c.args) == 2 for f_ in Scope(ctx, rn).funcs for c in ast.walk(f_.node))
    ctx.tri("3-all-outputs", rn, seq[0] if seq else rn.node, one_pass and not seq, bool(seq), "every current name is looked up once in `renames` (simultaneous renaming)",
            f"`{norm(seq[0])[:60] if seq else ''}` inside a loop over `{rprm[0] if rprm else ''}` renames the spec renamed so far: the entries are applied one after the other, so a chain {{a: b, b: c}} "
            "renames `a` to `c` and a swap {a: b, b: a} gives both arrays the same name - not the simultaneous renaming the rest of the package (PipeFunc.renames) performs", "how the renames are applied was not recognised", key="rename-simultaneous")
    # __post_init__ validates EVERY spec: an early `return` ahead of rejections exempts a class of specs (input-less ones) from the
    # checks behind it - also from those that only concern the outputs
    for cls_, post_ in ((ms, post), (asp, apost)):
        cfg_p = ctx.cfg(post_)
        rej_nodes = [cfg_p.node(r_["node"]) for r_ in rejections(cfg_p, post_.node, Defs(post_)) if not r_["dead"] and cfg_p.node(r_["node"]) is not None]
        par_p = {id(c_): p_ for p_ in ast.walk(post_.node) for c_ in ast.iter_child_nodes(p_)}

        def inverted_last_check(ret: ast.Return) -> bool:
            """`if ok: return` directly followed by the unconditional `raise` it guards: the last check written the other way round."""
            i_ = par_p.get(id(ret))
            if not isinstance(i_, ast.If):
                return False
            blk = next((b for b in (getattr(par_p.get(id(i_)), "body", None), getattr(par_p.get(id(i_)), "orelse", None)) if isinstance(b, list) and i_ in b), None)
            if blk is None:
                return False
            rest = blk[blk.index(i_) + 1:]
            return bool(rest) and isinstance(rest[-1], ast.Raise) and all(isinstance(x, (ast.Assign, ast.AnnAssign, ast.Expr)) for x in rest[:-1])

        early = [n_ for n_ in cfg_p.nodes(lambda s_: isinstance(s_, ast.Return)) if not inverted_last_check(cfg_p.stmt[n_]) and any(r_ > n_ and cfg_p.stmt[r_].lineno > cfg_p.stmt[n_].lineno for r_ in rej_nodes)]
        ctx.add("3-all-outputs", post_, cfg_p.stmt[early[0]] if early else post_.node, not early, f"{cls_.name}.__post_init__ has no early return ahead of a rejection" if not early else
                f"`return` at line {cfg_p.stmt[early[0]].lineno} of {cls_.name}.__post_init__ skips the rejections behind it for the specs that take it "
                f"({' and '.join(t for t, p_ in guard_facts(cfg_p, Defs(post_), early[0]))[:60]}): malformed specs of that kind (\"... -> x[i, :]\", outputs with different indices) are accepted at construction", key=f"no-early-return {cls_.name}")
    # the fields of a spec are TUPLES (frozen, hashable, equal to what the parser builds): a constructor call that hands over lists
    # yields a spec that prints right but is unequal to its own round trip and unhashable
    n_ctor = 0
    for f_ in P.functions_in(MOD):
        d_f = Defs(f_)
        for c in [c for c in ast.walk(f_.node) if isinstance(c, ast.Call) and dotted(c.func) in ("MapSpec", "ArraySpec")]:
            n_ctor += 1
            lists = [a for a in list(c.args) + [k.value for k in c.keywords if k.arg in ("inputs", "outputs", "axes")] if isinstance(d_f.resolve(a), (ast.List, ast.ListComp)) or (isinstance(d_f.resolve(a), ast.Call) and dotted(d_f.resolve(a).func) in ("list", "sorted"))]
            if lists:
                ctx.add("7-revalidate", f_, c, False, f"`{norm(c)[:60]}` builds a spec whose field is a LIST (`{norm(d_f.resolve(lists[0]))[:40]}`): it prints like a well-formed spec but is unhashable and not equal to `from_string(str(spec))`", key=f"tuple-fields {f_.name}")
    ctx.add("7-revalidate", MOD, "", True, f"{n_ctor} spec constructions in the module hand over tuples", key="tuple-fields-scan")
    # shapes are looked up BY NAME: pairing the inputs with `input_shapes.values()` position by position relies on the caller's dict order
    vs = P.func(f"{MOD}._validate_shapes") if f"{MOD}._validate_shapes" in P.functions else None
    if vs is not None:
        by_pos = [c for c in ast.walk(vs.node) if isinstance(c, ast.Call) and dotted(c.func) == "zip" and any(isinstance(a, ast.Call) and isinstance(a.func, ast.Attribute) and a.func.attr == "values" for a in c.args)]
        ctx.add("5-shape-path", vs, by_pos[0] if by_pos else vs.node, not by_pos, "each input's shape is looked up by the input's name" if not by_pos else
                f"`{norm(by_pos[0])[:60]}` pairs the inputs with the VALUES of the shapes dict by position: a dict given in another key order has its ranks checked against the wrong inputs (valid shapes are refused, wrong ranks pass)", key="shapes-by-name")
    # input_keys has an entry for EVERY input (':'-only inputs get full slices)
    from ..flow import element_domain

    ik = ms.methods["input_keys"]
    doms = []
    for n_ in ast.walk(ik.node):
        keys_ = []
        if isinstance(n_, ast.DictComp):
            keys_.append(n_.key)
        elif isinstance(n_, ast.Assign):
            keys_ += [t.slice for t in n_.targets if isinstance(t, ast.Subscript)]
        for k_ in keys_:
            if isinstance(k_, ast.Attribute) and k_.attr == "name" and isinstance(k_.value, ast.Name):
                doms += [(n_, v) for v in element_domain(ctx, ik, k_.value.id, ("self.inputs",))]
    wholes = [x for x in doms if x[1][0] == "whole"]
    restr = [x for x in doms if x[1][0] == "restricted"]
    ctx.tri("3-all-outputs", ik, (restr or doms or [(ik.node, None)])[0][0], bool(wholes) and not restr, bool(restr), "input_keys has an entry for every input of the spec",
            f"input_keys only has entries for a restriction of the inputs ({restr[0][1][1] if restr else ''}): an input outside it (e.g. `x[:]`, only ':' axes) is missing from the returned keys instead of getting full slices",
            "the inputs that input_keys ranges over were not recognised", key="input-keys-every-input")


def _strip_bool(e: ast.AST) -> ast.AST:
    while isinstance(e, ast.Call) and dotted(e.func) == "bool" and len(e.args) == 1:
        e = e.args[0]
    return e


def rule_shape_path(ctx: Ctx) -> None:  # noqa: C901, PLR0915
    P = ctx.prog
    ms, asp = P.cls(f"{MOD}.MapSpec"), P.cls(f"{MOD}.ArraySpec")
    shape = ms.methods["shape"]
    cfg = ctx.cfg(shape)
    d = Defs(shape)
    # the shape validator is found by what it does: the callee of MapSpec.shape that reaches ArraySpec.validate
    av_q = asp.methods["validate"].qualname
    val_sites = [s_ for s_ in ctx.cg.sites.get(shape.qualname, []) if any(c.qualname == av_q or av_q in ctx.cg.reachable(c.qualname) for c in s_.callees)]
    val = {n for n in (cfg.node_containing(s_.node) for s_ in val_sites) if n is not None}
    loops = cfg.nodes(lambda s: isinstance(s, ast.For))
    if loops:
        ok = bool(val) and all(any(cfg.dominates(v, lp) for v in val) for lp in loops)
        ctx.tri("5-shape-path", shape, shape.node, ok, not val, "ranks are validated before any dimension is read", "MapSpec.shape reads dimensions without validating the ranks of the given shapes first (ArraySpec.validate is not reached): a shape of the wrong rank is indexed silently",
                "the rank validation does not dominate the loop", key="validate-first")
    if val_sites:
        vs = [c for c in val_sites[0].callees if c.qualname != av_q] or [shape]
        n_r = len(reach_rejections(ctx, vs[0]))
        ctx.tri("5-shape-path", vs[0], vs[0].node, n_r >= 3, n_r == 0, "extra / missing inputs and wrong ranks raise", f"{vs[0].name} never raises", f"{n_r} rejections", key="validate-raises")
    # ... and it is applied to EVERY input: the receiver of `.validate` ranges over the whole of `self.inputs`
    from ..flow import element_domain

    closure = ctx.cg.reachable(shape.qualname)
    doms = []
    for q in sorted(closure):
        f_ = P.functions.get(q)
        if f_ is None or not f_.module.name.startswith(MOD):
            continue
        for s_ in ctx.cg.sites.get(q, []):
            if s_.kind == "call" and any(c.qualname == av_q for c in s_.callees) and isinstance(s_.node.func, ast.Attribute) and isinstance(s_.node.func.value, ast.Name):
                doms += [(f_, s_.node, v) for v in element_domain(ctx, f_, s_.node.func.value.id, ("self.inputs",), within=closure)]
    if doms:
        wholes = [x for x in doms if x[2][0] == "whole"]
        restr = [x for x in doms if x[2][0] == "restricted"]
        ctx.tri("5-shape-path", (restr or doms)[0][0], (restr or doms)[0][1], bool(wholes), bool(restr) and not wholes, "the rank of every input is validated (the validated arrays range over the whole of self.inputs)",
                f"only a restriction of the inputs has its rank validated ({restr[0][2][1] if restr else ''}): the shape of an input outside it (e.g. one with only ':' axes) is accepted with any rank",
                f"domain of the validated arrays not recognised ({doms[0][2][1][:60]})", key="validate-every-input")
    av = asp.methods["validate"]
    rj = [r for r in rejections(ctx.cfg(av), av.node, Defs(av)) if not r["dead"]]
    rank_rej = [r for r in rj if any("len(shape)" in c and "rank" in c for c in r["conds"])]
    ctx.tri("5-shape-path", av, av.node, bool(rank_rej), not rj, "rank mismatch raises", "ArraySpec.validate never raises: shapes of the wrong rank pass", "rank comparison not recognised", key="rank-check")
    rk = asp.methods["rank"]
    rt = " ".join(norm(Defs(rk).resolve(r.value)) for r in walk_no_nested(rk.node) if isinstance(r, ast.Return) and r.value is not None)
    ctx.tri("5-shape-path", rk, rk.node, "len(self.axes)" in rt, "self.indices" in rt, "rank counts ':' axes too", "rank is computed from `.indices`, which omits ':' axes: shapes of arrays with a reduced axis are rejected / mis-indexed", f"rank = `{rt[:50]}`", key="rank-def")
    # mask polarity: an axis is marked True exactly when its dimension comes from the inputs
    ext_nodes = cfg.nodes(lambda s: not isinstance(s, (ast.For, ast.If)) and any(isinstance(c, ast.Call) and dotted(c.func) == "_get_common_dim" for c in ast.walk(s)))
    appends = cfg.nodes(lambda s: isinstance(s, ast.Expr) and isinstance(s.value, ast.Call) and isinstance(s.value.func, ast.Attribute) and s.value.func.attr == "append" and "mask" in norm(s.value.func.value))
    if ext_nodes and appends:
        eg = [(t, p) for t, p in guards(cfg, d, ext_nodes[0])]
        verdicts = []
        for a in appends:
            v = cfg.stmt[a].value.args[0]
            if isinstance(v, ast.Constant) and isinstance(v.value, bool):
                ag = guards(cfg, d, a)
                shared = [(t, p, dict(eg).get(t)) for t, p in ag if t in dict(eg)]
                if shared:
                    t, p, pe = shared[-1]
                    verdicts.append(v.value == (p == pe))
                else:
                    verdicts.append(None)
            else:
                vt, vp = cond(_strip_bool(d.resolve(v)))
                match = [(t, p) for t, p in eg if cond(_strip_bool(ast.parse(t, mode="eval").body))[0] == vt]
                verdicts.append((vp == match[-1][1]) if match else None)
        ctx.tri("5-shape-path", shape, cfg.stmt[appends[0]], all(v is True for v in verdicts), any(v is False for v in verdicts),
                "mask is True for mapped axes, False for internal ones", "the shape mask marks an axis whose dimension comes from the inputs as internal (or the reverse): external/internal index spaces are swapped everywhere downstream",
                "mask construction not recognised", key="mask-polarity")
    else:
        ctx.add("5-shape-path", shape, shape.node, None, "UNDECIDED: _get_common_dim call / mask.append not found", key="mask-polarity")
    gcd = P.func(f"{MOD}._get_common_dim")
    rj = [r for r in rejections(ctx.cfg(gcd), gcd.node, Defs(gcd)) if not r["dead"]]
    ne = [r for r in rj if any("!=" in c for c in r["conds"])]
    ctx.tri("5-shape-path", gcd, gcd.node, bool(ne), not rj, "zipped dimension mismatch raises", "_get_common_dim never raises: unequal zipped dimensions are accepted", "mismatch test not recognised", key="common-dim-raises")
    # ... and the comparison ranges over ALL the arrays that share the index (a strided / sliced domain compares only some of them)
    gd = Defs(gcd)
    partial = []
    for r in ne:
        for _tgt, it in r["iters"]:
            for x in ast.walk(gd.resolve(it)):
                if isinstance(x, ast.Subscript) and isinstance(x.slice, ast.Slice) and x.slice.step is not None:
                    partial.append(x)
    ctx.tri("5-shape-path", gcd, partial[0] if partial else gcd.node, bool(ne) and not partial, bool(partial), "every array sharing the index takes part in the mismatch test",
            f"the mismatch test ranges over `{norm(partial[0]) if partial else ''}` (every other element): with three or more arrays some are never compared, and an odd one out passes", "domain of the mismatch test not recognised", key="common-dim-domain")
    # positions used to subscript a shape must come from `.axes`
    n_pos = 0
    for fn in P.functions_in(MOD):
        fd = Defs(fn)
        for sub in [s_ for s_ in walk_no_nested(fn.node) if isinstance(s_, ast.Subscript) and "shape" in ast.unparse(s_.value).lower()]:
            srcs = []
            if isinstance(sub.slice, ast.Name):
                srcs = [a.value for a in walk_no_nested(fn.node) if isinstance(a, ast.Assign) and any(isinstance(t, ast.Name) and t.id == sub.slice.id for t in a.targets)]
            elif isinstance(sub.slice, ast.Call):
                srcs = [sub.slice]
            for v in srcs:
                t = norm(fd.resolve(v))
                if ".index(" not in t:
                    continue
                n_pos += 1
                ctx.tri("5-shape-path", fn, sub, ".axes.index(" in t, ".indices.index(" in t, "axis position for a shape lookup comes from `.axes`",
                        f"`{t[:60]}`: the position is taken from the ':'-stripped `.indices` but subscripts a full-rank shape - wrong axis whenever ':' precedes the index", key=f"pos {fn.name}")
    ctx.floor("5-shape-path.positions", n_pos, 1)


def _arith_roles(fn: FuncInfo) -> dict[str, str]:
    """Names bound (by zip) to elements of the strides / of the shape in _shape_to_key."""
    d = Defs(fn)
    shape_p = fn.param_names()[0]
    roles: dict[str, str] = {}
    for it in iterations(fn.node):
        src = d.resolve(it["iter"])
        if isinstance(src, ast.Call) and dotted(src.func) == "zip" and isinstance(it["target"], ast.Tuple) and len(src.args) == len(it["target"].elts):
            for tgt, a in zip(it["target"].elts, src.args):
                t = norm(d.resolve(a))
                roles[norm(tgt)] = "stride" if "strides" in t else ("dim" if t == shape_p else "?")
    return roles


def rule_one_key(ctx: Ctx) -> None:  # noqa: C901, PLR0915
    P = ctx.prog
    ms, asp = P.cls(f"{MOD}.MapSpec"), P.cls(f"{MOD}.ArraySpec")
    DECOMPOSERS = {"_shape_to_key", "unravel_index", "divmod"}
    used = {}
    for name in ("output_key", "input_keys"):
        f = ms.methods[name]
        used[name] = {_l(dotted(c.func)) for _f, c in Scope(ctx, f, depth=1).calls(*DECOMPOSERS) if _f is f}
        rj = reach_rejections(ctx, f)
        rank = [r for r in rj if any("len(shape)" in c for c in r["conds"])]
        ctx.tri("6-one-key", f, f.node, bool(rank), not rj, f"{name} rejects a shape of the wrong rank", f"{name} never raises: a shape of the wrong rank is decomposed silently", "rank test not recognised", key=f"{name} rank")
    same = used["output_key"] == used["input_keys"] == {"_shape_to_key"}
    ctx.tri("6-one-key", ms.methods["input_keys"], ms.methods["input_keys"].node, same, bool(used["output_key"]) and bool(used["input_keys"]) and used["output_key"] != used["input_keys"],
            "output_key and input_keys decompose the linear index with the same function (_shape_to_key)",
            f"output_key decomposes the linear index with {sorted(used['output_key'])} but input_keys with {sorted(used['input_keys'])}: the element written and the inputs read can belong to different positions", key="same-decomposition")
    ik = ms.methods["input_keys"]
    d = Defs(ik)
    zips = [c for c in ast.walk(ik.node) if isinstance(c, ast.Call) and dotted(c.func) == "zip" and len(c.args) == 2 and "_shape_to_key" in norm(d.resolve(c.args[1]))]
    if zips:
        first = norm(d.resolve(zips[0].args[0]))
        ctx.tri("6-one-key", ik, zips[0], first == "self.external_indices", first in ("self.input_indices", "self.output_indices") or "sorted(" in first,
                "index names are paired with the key positions in external_indices order", f"the key positions are paired with `{first}`, not with self.external_indices (the order/selection of the key's positions)", f"key positions paired with `{first[:40]}`", key="ids")
    else:
        ctx.add("6-one-key", ik, ik.node, None, "UNDECIDED: pairing of index names with key positions not recognised", key="ids")
    axes_iter = [it for it in iterations(ik.node) if re.fullmatch(r"\w+\.(axes|indices)", norm(it["iter"]))]
    by_axes = [it for it in axes_iter if norm(it["iter"]).endswith(".axes")]
    by_idx = [it for it in axes_iter if norm(it["iter"]).endswith(".indices")]
    full = "slice(None)" in norm(ik.node)
    ctx.tri("6-one-key", ik, (by_idx or by_axes or [{"node": ik.node}])[0]["node"], bool(by_axes) and full and not by_idx, bool(by_idx),
            "each input axis: full slice for ':' else the index value, in the input's own axis order", "input keys are built from `.indices` (':' axes dropped): the key has the wrong rank for arrays with a reduced axis", "construction of the input keys not recognised", key="input-key-build")
    ext = ms.methods["external_indices"]
    its = iterations(ext.node)
    src = [norm(Defs(ext).resolve(it["iter"])) for it in its]
    out_order = [t for t in src if t in ("self.output_indices", "self.outputs[0].indices", "self.outputs[0].axes")]
    in_order = [t for t in src if "self.inputs" in t or "input_indices" in t]
    ctx.tri("6-one-key", ext, ext.node, bool(out_order) and not in_order, bool(in_order) and not out_order, "external_indices keeps OUTPUT-axis order (the order of the key positions)",
            "external_indices is enumerated in the order of the inputs, not of the output axes: input_keys and output_key disagree about which index a key position denotes (e.g. 'x[i, j] -> z[j, i]')",
            f"iteration sources {src} not recognised", key="external-order")
    ai = asp.methods["indices"]
    t = norm(ai.node)
    ctx.tri("6-one-key", ai, ai.node, "self.axes" in t and "is not None" in nnf_text(ai.node), any(w in t for w in ("sorted(", "set(")), "indices = axes without None, in order", "ArraySpec.indices reorders/deduplicates the axes", key="indices-def")
    stk = P.func(f"{MOD}._shape_to_key")
    roles = _arith_roles(stk)
    sd = Defs(stk)
    verdicts = []
    for b in [b for b in ast.walk(stk.node) if isinstance(b, ast.BinOp) and isinstance(b.op, ast.Mod)]:
        left = sd.resolve(b.left)
        if isinstance(left, ast.BinOp) and isinstance(left.op, ast.FloorDiv):
            div, mod_ = roles.get(norm(left.right), "?"), roles.get(norm(b.right), "?")
            verdicts.append((div, mod_))
    good = bool(verdicts) and all(v == ("stride", "dim") for v in verdicts)
    swapped = any(v[0] == "dim" or v[1] == "stride" for v in verdicts)
    ctx.tri("6-one-key", stk, stk.node, good, swapped, "key[k] = (linear // stride_k) % dim_k over zip(strides(shape), shape)",
            f"_shape_to_key divides/reduces by the wrong quantities {verdicts}: it must be (linear // stride) % dim", "arithmetic of _shape_to_key not recognised", key="shape-to-key")
    sts = P.func(f"{MOD}.shape_to_strides")
    ssd = Defs(sts)
    outer = [it for it in iterations(sts.node) if it["kind"] == "loop" and isinstance(it["target"], ast.Name)]
    ranges = []
    for o in outer:
        i = o["target"].id
        for x in ast.walk(o["node"]):
            if isinstance(x, ast.Call) and dotted(x.func) == "range" and len(x.args) >= 2 and x is not o["iter"]:
                ranges.append((i, norm(ssd.resolve(x.args[0])).replace(" ", "")))
            if isinstance(x, ast.Subscript) and isinstance(x.slice, ast.Slice) and x.slice.lower is not None:
                ranges.append((i, norm(ssd.resolve(x.slice.lower)).replace(" ", "")))
    # where the loop variable starts: `for i in range(len(shape))` counts the axis itself, `for n in range(1, len(shape) + 1)` the number
    # of axes up to and including it (shape[n:] are then the FOLLOWING axes)
    starts: dict[str, int | None] = {}
    for o in outer:
        it_ = o["iter"]
        st_: int | None = None
        if isinstance(it_, ast.Call) and dotted(it_.func) == "range":
            if len(it_.args) == 1:
                st_ = 0
            elif isinstance(it_.args[0], ast.Constant) and isinstance(it_.args[0].value, int):
                st_ = it_.args[0].value
        elif isinstance(it_, ast.Call) and dotted(it_.func) == "enumerate":
            st_ = 0
        starts[o["target"].id] = st_
    known = [r for r in ranges if starts.get(r[0]) in (0, 1)]
    following = [r for r in known if (r[1] == f"{r[0]}+1" and starts[r[0]] == 0) or (r[1] == r[0] and starts[r[0]] == 1)]
    including = [r for r in known if r[1] == r[0] and starts[r[0]] == 0]
    ctx.tri("6-one-key", sts, sts.node, bool(following) and not including, bool(including), "stride_i = product of the FOLLOWING dimensions (row-major)",
            "the stride of an axis includes the axis' own dimension: keys are not the row-major coordinates", "stride computation not recognised", key="row-major-strides")


def _l(name: str) -> str:
    return name.rsplit(".", 1)[-1]


def nnf_text(node: ast.AST) -> str:
    return " ".join(nnf(i) for n in ast.walk(node) if isinstance(n, ast.comprehension) for i in n.ifs) + " ".join(nnf(n.test) for n in ast.walk(node) if isinstance(n, (ast.If, ast.IfExp)))


def rule_revalidate(ctx: Ctx) -> None:
    P = ctx.prog
    ms, asp = P.cls(f"{MOD}.MapSpec"), P.cls(f"{MOD}.ArraySpec")
    for cls, names in ((ms, ("add_axes", "rename")), (asp, ("add_axes",))):
        for nm in names:
            f = cls.methods[nm]
            d = Defs(f)
            for r in [r for r in walk_no_nested(f.node) if isinstance(r, ast.Return) and r.value is not None]:
                t = norm(d.resolve(r.value))
                # dataclasses.replace() builds the copy through __init__ (and so __post_init__): it revalidates
                dc_replace = t.startswith("dataclasses.replace(") or (t.startswith("replace(") and any(
                    isinstance(i_, ast.ImportFrom) and i_.module == "dataclasses" and any(a_.name == "replace" and a_.asname is None for a_ in i_.names) for i_ in ast.walk(f.module.tree)))
                ctx.tri("7-revalidate", f, r, t.startswith(("MapSpec(", "ArraySpec(", "type(self)(", "self.__class__(")) or t == "self" or dc_replace, any(w in t for w in ("__new__", "copy.copy(")),
                        "returns through the validating constructor", f"`{t[:50]}` bypasses the constructor", f"return `{t[:40]}` not recognised", key=f"{cls.name}.{nm} returns")
    bypass = []
    for m in P.modules.values():
        for n in ast.walk(m.tree):
            if isinstance(n, ast.Call) and dotted(n.func) in ("object.__setattr__", "object.__new__") or (isinstance(n, ast.Call) and isinstance(n.func, ast.Attribute) and n.func.attr == "__new__" and "Spec" in ast.unparse(n)):
                bypass.append(f"{m.relpath}:{n.lineno}")
    ctx.add("7-revalidate", "pipefunc", "", not bypass, "no object.__setattr__/__new__ bypass anywhere in the package" if not bypass else f"constructor bypass at {bypass}", key="no-bypass")
    aa = asp.methods["add_axes"]
    t = norm(aa.node)
    rj = [r for r in rejections(ctx.cfg(aa), aa.node) if not r["dead"]]
    ctx.tri("7-revalidate", aa, aa.node, bool(rj) and "self.axes + " in t, "+ self.axes" in t and "self.axes + " not in t, "add_axes appends and rejects duplicates", "ArraySpec.add_axes prepends the new axes: existing axis positions shift", key="add-axes")
    rn = ms.methods["rename"]
    sc = Scope(ctx, rn)
    ctors = [c for _f, c in sc.calls("ArraySpec") if len(c.args) >= 2]
    keeps_axes = [c for c in ctors if re.fullmatch(r"\w+\.axes", norm(c.args[1]))]
    t = sc.text()
    ctx.tri("7-revalidate", rn, rn.node, bool(keeps_axes) and "self.inputs" in t and "self.outputs" in t, bool(ctors) and not keeps_axes, "rename maps names only, inputs and outputs alike, axes untouched",
            "rename rebuilds the arrays with altered axes", "rename not recognised", key="rename")


def check(ctx: Ctx) -> None:
    for rule in (rule_tokens, rule_eq_fields, rule_all_outputs, rule_shape_path, rule_one_key, rule_revalidate):
        ctx.run(rule)


F = "pipefunc/map/_mapspec.py"
MUTANTS = [
    Mutant("rename-one-after-the-other", F, "        if not any(name in renames for name in self.input_names + self.output_names):\n            return self\n", "        if not any(name in renames for name in self.input_names + self.output_names):\n            return self\n        spec = self\n        for old, new in renames.items():\n            spec = spec.rename({old: new}) if len(renames) > 1 else spec\n        if len(renames) > 1:\n            return spec\n", ("C08.3-all-outputs",), why="round-8 seed C08/22"),
    Mutant("print-semicolon", F, 'return f"{self.name}[{\', \'.join(indices)}]"', 'return f"{self.name}[{\'; \'.join(indices)}]"', ("C08.1-tokens",)),
    Mutant("colon-not-parsed", F, 'return tuple(i if i != ":" else None for i in indices)', "return tuple(i for i in indices)", ("C08.1-tokens",)),
    Mutant("from-string-swapped", F, "        return cls(inputs, outputs)\n", "        return cls(outputs, inputs)\n", ("C08.1-tokens",)),
    Mutant("is-generated-compared-F11", F, "_is_generated: bool = field(default=False, compare=False)", "_is_generated: bool = False", ("C08.2-eq-fields",), why="original F11"),
    Mutant("none-first-output-only-F12", F, "if any(x is None for output in self.outputs for x in output.axes):", "if any(x is None for x in self.outputs[0].axes):", ("C08.3-all-outputs",), why="original F12"),
    Mutant("indices-as-sets", F, "if not all(x.indices == self.outputs[0].indices for x in self.outputs[1:]):", "if not all(set(x.indices) == set(self.outputs[0].indices) for x in self.outputs[1:]):", ("C08.3-all-outputs",), why="seeded C08/3"),
    Mutant("shape-no-validate", F, "        _validate_shapes(input_names, input_shapes, self.inputs, internal_shapes, self.output_names)\n", "", ("C08.5-shape-path",)),
    Mutant("get-dim-from-indices", F, "        axis = array.axes.index(index)\n", "        axis = array.indices.index(index)\n", ("C08.5-shape-path",), why="seeded C08/2"),
    Mutant("common-dim-no-raise", F, "    if any(dim != x for x in rest):\n", "    if False:\n", ("C08.5-shape-path",)),
    Mutant("mask-polarity", F, "                shape.append(dim)\n                mask.append(True)\n", "                shape.append(dim)\n                mask.append(False)\n", ("C08.5-shape-path",)),
    Mutant("external-indices-input-order", F, "return tuple(n for n in self.output_indices if n in self.input_indices)",
           "return tuple(dict.fromkeys(i for x in self.inputs for i in x.indices))", ("C08.6-one-key",), why="seeded C08/1"),
    Mutant("shape-to-key-swapped", F, "(linear_index // stride) % dim for stride, dim in zip(shape_to_strides(shape), shape)", "(linear_index // dim) % stride for stride, dim in zip(shape_to_strides(shape), shape)", ("C08.6-one-key",)),
    Mutant("strides-include-self", F, "for j in range(i + 1, len(shape)):", "for j in range(i, len(shape)):", ("C08.6-one-key",)),
    Mutant("input-keys-own-decomposition", F, "        key = _shape_to_key(shape, linear_index)\n        ids = dict", "        key = tuple(int(k) for k in np.unravel_index(linear_index, shape, order=\"F\"))\n        ids = dict", ("C08.6-one-key",)),
    Mutant("rename-bypasses-ctor", F, "        return MapSpec(tuple(map(_rename, self.inputs)), tuple(map(_rename, self.outputs)))\n",
           "        new = object.__new__(MapSpec)\n        object.__setattr__(new, \"inputs\", tuple(map(_rename, self.inputs)))\n        object.__setattr__(new, \"outputs\", tuple(map(_rename, self.outputs)))\n        object.__setattr__(new, \"_is_generated\", self._is_generated)\n        return new\n", ("C08.7-revalidate",)),
    Mutant("twin-post-init-local", F, "        output_indices = set(self.outputs[0].indices)\n", "        output_indices = set(self.output_indices)\n", twin=True),
    Mutant("twin-shape-comment", F, "        output = self.outputs[0]  # All outputs have the same shape\n", "        output = self.outputs[0]\n", twin=True),
]
