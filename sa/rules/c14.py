"""C14 - cache containers conform to their replacement-policy model (structural clauses).

Decided here (each a necessary condition; the full policy model over histories is declined):
  1 lock      every dependent sequence of accesses to the shared containers lies in ONE `with self._cache_lock`
  2 invariant abstract interpretation of every method over {key in each container?, occurrences in queue,
              cache full?}: from every consistent entry state every exit state is consistent, nothing can raise
              KeyError/ValueError, and the number of entries does not grow when the cache is full
  3 policy    LRU evicts queue.pop(0) and get() moves the key to the back; Hybrid evicts min(score); Disk min(ctime)
  4 retire    a loop that destroys an element selected from a collection also removes it from that collection
  5 division  no division by the sum of caller-supplied durations without a zero guard
  6 pickling  _CacheBase.__getstate__ raises unless `shared`
  7 bound     DiskCache.put always reaches _evict_if_needed
  10 proxy-iteration a manager.dict() proxy is never iterated directly (works only in the process that owns the manager)
"""

from __future__ import annotations

import ast
import re
from dataclasses import dataclass, field, replace

from ..cfg import ENTRY, EXIT, RAISE, header_parts
from ..flow import Defs, Scope
from ..loader import AnalysisError, FuncInfo, dotted, norm, walk_no_nested
from ..report import Ctx
from ..selftest import Mutant

PROP = "C14"
TECHNIQUE = "static analysis: abstract interpretation of every cache method over (key membership per container, queue multiplicity, fullness) + lock-region analysis with transitive helper callers + CFG must-pass rules + policy selector def-use + negative-slice-bound rule + containers-bound-once rule + manager-proxy iteration rule + exceptional exit states at user-value serialisation + encode/decode guard truth-table agreement + directory-listing must-pass under a set bound + unrestricted eviction candidates + evict-after-write ordering + keys-never-ordered rule + read-only disk reads (effects) + fall-through of a miss in the in-memory level + vanished-file tolerance of clear() + hit-refresh guard kinds (the recency update depends on the lookup only) + constructor parameter wiring + field-alias normalisation"
MOD = "pipefunc.cache"
EXPLANATION = (
    "Static analysis of pipefunc/cache.py: lock-discipline (all dependent accesses to the shared containers of "
    "LRUCache/HybridCache inside one `with self._cache_lock`), an abstract interpretation of every method body of "
    "LRUCache and HybridCache over a finite state (membership of the argument key and of an evicted key in each "
    "parallel container, multiplicity in the LRU queue, cache full or not) proving that each method maps consistent "
    "states to consistent states without raising and without growing a full cache, plus pattern rules for the "
    "eviction policy, destroyed-element retirement in DiskCache, guarded division and the pickling guard. "
    "No pipefunc code is executed."
)
TRUSTED = [
    "CPython ast parser",
    "the abstract semantics given in sa/rules/c14.py for dict/list operations (subscript store, del, pop, remove, append, clear, in, len)",
    "multiprocessing.Manager proxies behave like dict/list for those operations",
]
DECLINED = [
    "conformance to the replacement-policy model over all operation histories (needs execution / explicit-state exploration)",
    "multi-process interleavings beyond 'every dependent access sequence is inside one lock region'",
    "HybridCache scoring arithmetic; DiskCache file-system timing (st_ctime resolution)",
]

SHARED = {
    "LRUCache": ["_cache_dict", "_cache_queue"],
    "HybridCache": ["_cache_dict", "_access_counts", "_computation_durations"],
}
LOCK = "_cache_lock"
# methods whose unlocked reads are by design: one line of reason each
LOCK_EXEMPT = {
    ("HybridCache", "__str__"): "diagnostic repr, not one of put/get/in/len/clear",
    ("LRUCache", "__init__"): "object not yet shared",
    ("HybridCache", "__init__"): "object not yet shared",
}


# ------------------------------------------------------------------------------ helpers
def _self_attr(node: ast.AST) -> str | None:
    if isinstance(node, ast.Attribute) and isinstance(node.value, ast.Name) and node.value.id == "self":
        return node.attr
    return None


def _accesses(fn: FuncInfo, fields: list[str]) -> list[ast.Attribute]:
    return [n for n in walk_no_nested(fn.node) if isinstance(n, ast.Attribute) and _self_attr(n) in fields]


def _parents(root: ast.AST) -> dict[int, ast.AST]:
    par: dict[int, ast.AST] = {}
    for p in ast.walk(root):
        for c in ast.iter_child_nodes(p):
            par[id(c)] = p
    return par


def _lock_region(node: ast.AST, par: dict[int, ast.AST]) -> ast.With | None:
    x = node
    while id(x) in par:
        x = par[id(x)]
        if isinstance(x, ast.With) and any(_self_attr(i.context_expr) == LOCK for i in x.items):
            return x
    return None


_NS_CACHE: dict = {}


def _under_not_shared(node: ast.AST, par: dict[int, ast.AST]) -> bool:
    """`node` only runs when `self.shared` is false: inside `if not self.shared:` or after `if self.shared: ... return`."""
    # find the enclosing function definition to ask the CFG for the facts that hold at the node
    x = node
    fdef = None
    while id(x) in par:
        x = par[id(x)]
        if isinstance(x, (ast.FunctionDef, ast.AsyncFunctionDef)):
            fdef = x
    if fdef is None and isinstance(x, (ast.FunctionDef, ast.AsyncFunctionDef)):
        fdef = x
    if fdef is not None:
        from ..cfg import CFG as _CFG
        from ..flow import guard_facts as _gf

        key = id(fdef)
        if key not in _NS_CACHE:
            try:
                _NS_CACHE[key] = _CFG(fdef)
            except Exception:  # noqa: BLE001
                _NS_CACHE[key] = None
        cfg = _NS_CACHE[key]
        if cfg is not None:
            n = cfg.node_containing(node)
            if n is not None and any(t == "self.shared" and not pol for t, pol in _gf(cfg, Defs(ast.Module(body=[], type_ignores=[])), n)):
                return True
    x = node
    while id(x) in par:
        child, x = x, par[id(x)]
        if isinstance(x, ast.If) and child in x.body and norm(x.test) in ("not self.shared",):
            return True
    return False


# ------------------------------------------------------------------------------ rule 1
def _callers_hold_lock(ctx: Ctx, fn: FuncInfo, fields: list[str], seen: set[str]) -> tuple[bool, int, list[str]]:
    """(all call sites hold the lock, number of sites, locations of sites that do not)."""
    seen = seen | {fn.qualname}
    sites = list(ctx.cg.call_sites_of(fn.qualname))
    bad: list[str] = []
    for s_ in sites:
        par = _parents(s_.caller.node)
        if _lock_region(s_.node, par) is not None or _under_not_shared(s_.node, par):
            continue
        caller = s_.caller
        has_own_lock = any(isinstance(w, ast.With) and any(_self_attr(i.context_expr) == LOCK for i in w.items) for w in ast.walk(caller.node))
        if not has_own_lock and caller.qualname not in seen and caller.cls is fn.cls and caller.name.startswith("_") and not caller.name.startswith("__"):
            ok, n, b = _callers_hold_lock(ctx, caller, fields, seen)
            if ok and n:
                continue
            bad += b or [s_.loc]
            continue
        bad.append(s_.loc)
    return bool(sites) and not bad, len(sites), bad


def rule_lock(ctx: Ctx) -> None:
    n = 0
    for cname, fields in SHARED.items():
        cls = ctx.prog.cls(f"{MOD}.{cname}")
        for mname, fn in cls.methods.items():
            acc = _accesses(fn, fields)
            if not acc:
                continue
            n += 1
            if (cname, mname) in LOCK_EXEMPT:
                continue
            par = _parents(fn.node)
            regions = {id(_lock_region(a, par)) if _lock_region(a, par) is not None else None for a in acc if not _under_not_shared(a, par)}
            outside = [a for a in acc if _lock_region(a, par) is None and not _under_not_shared(a, par)]
            locked = [a for a in acc if _lock_region(a, par) is not None]
            considered = [a for a in acc if not _under_not_shared(a, par)]
            if len(considered) <= 1:
                ctx.add("1-lock", fn, fn.node, True, "single atomic access to a shared container", key=f"def {mname}")
                continue
            if not outside and len(regions) == 1:
                ctx.add("1-lock", fn, fn.node, True, f"{len(locked)} accesses inside one lock region", key=f"def {mname}")
                continue
            if not locked:
                # helper without a lock of its own: every call site must hold the lock (directly, or because the caller
                # is itself such a helper whose call sites all hold it)
                ok, n_sites, bad = _callers_hold_lock(ctx, fn, fields, set())
                ctx.tri("1-lock", fn, fn.node, ok, bool(bad),
                        f"{len(outside)} unlocked accesses; all {n_sites} call site(s) hold self.{LOCK}",
                        f"{len(outside)} unlocked accesses and the call site(s) {bad} do not hold self.{LOCK}",
                        "no call site of this helper was found", key=f"def {mname}")
                continue
            first = outside[0] if outside else locked[0]
            ctx.add("1-lock", fn, first, False,
                    f"dependent accesses to {sorted({a.attr for a in acc})} are split: {len(outside)} outside the lock, "
                    f"{len(locked)} inside {len(regions - {None})} lock region(s) - another process can change the container in between",
                    key=f"def {mname}")
    ctx.floor("1-lock", n, 12)


# ------------------------------------------------------------------------------ rule 2 (abstract interpretation)
@dataclass(frozen=True)
class St:
    """Abstract state along one path.  mem[(keyname, container)] in {True, False}; q = occurrences in the queue."""

    mem: tuple = ()
    q: tuple = ()  # ((keyname, count), ...)  only for the LRU queue
    full: bool | None = None  # len(container) >= max_size at entry (None = unknown/unbounded)
    delta: int = 0  # entries added minus removed (in the primary dict)
    alias: tuple = ()  # (localname, expr-text)
    problems: tuple = ()
    cleared: frozenset = frozenset()
    evicted: tuple = ()  # names of keys taken out by the policy

    def m(self, key: str, cont: str):
        return dict(self.mem).get((key, cont))

    def setm(self, key: str, cont: str, val: bool) -> St:
        d = dict(self.mem)
        d[(key, cont)] = val
        return replace(self, mem=tuple(sorted(d.items())))

    def qc(self, key: str) -> int:
        return dict(self.q).get(key, 0)

    def setq(self, key: str, c: int) -> St:
        d = dict(self.q)
        d[key] = c
        return replace(self, q=tuple(sorted(d.items())))

    def prob(self, text: str) -> St:
        return replace(self, problems=(*self.problems, text))


@dataclass
class Model:
    cname: str
    primary: str
    conts: list[str]
    queue: str | None
    helpers: dict[str, FuncInfo] = field(default_factory=dict)


class Interp:
    """Path-enumerating abstract interpreter for the cache methods (loops are unrolled 0/1 times)."""

    MUTATORS = ("pop", "remove", "append", "clear", "update", "setdefault", "insert", "extend", "popitem", "__setitem__", "__delitem__", "sort", "reverse")

    def __init__(self, model: Model, fn: FuncInfo, keyname: str | None) -> None:
        self.model = model
        self.fn = fn
        self.key = keyname
        self.unmodelled: list[str] = []
        self.loop_vars: set[str] = set()
        # locals that are plain names for a container (`queue = self._cache_queue`), in the method and its helpers
        self.cont_alias: dict[str, str] = {}
        for f in [fn, *model.helpers.values()]:
            for a in walk_no_nested(f.node):
                if isinstance(a, ast.Assign) and len(a.targets) == 1 and isinstance(a.targets[0], ast.Name) and _self_attr(a.value) in model.conts:
                    name = a.targets[0].id
                    if self.cont_alias.get(name, _self_attr(a.value)) != _self_attr(a.value):
                        self.unmodelled.append(f"`{name}` names two containers")
                    self.cont_alias[name] = _self_attr(a.value)  # type: ignore[assignment]
        for f in [fn, *model.helpers.values()]:
            for a in walk_no_nested(f.node):
                tg = a.targets if isinstance(a, ast.Assign) else ([a.target] if isinstance(a, (ast.AugAssign, ast.AnnAssign)) else [])
                for t in tg:
                    if isinstance(t, ast.Name) and t.id in self.cont_alias and not (isinstance(a, ast.Assign) and _self_attr(a.value) == self.cont_alias[t.id]):
                        self.unmodelled.append(f"`{t.id}` is rebound")

    # -- expression helpers
    def _cont(self, node: ast.AST) -> str | None:
        a = _self_attr(node)
        if a in self.model.conts:
            return a
        if isinstance(node, ast.Name) and node.id in self.cont_alias:
            return self.cont_alias[node.id]
        return None

    def _helper_mutates(self, h: FuncInfo, seen: frozenset = frozenset()) -> bool:
        """The helper (or a helper it calls) changes one of the containers."""
        for x in walk_no_nested(h.node):
            if isinstance(x, ast.Call) and isinstance(x.func, ast.Attribute) and self._cont(x.func.value) and x.func.attr in self.MUTATORS:
                return True
            if isinstance(x, (ast.Subscript,)) and self._cont(x.value) and isinstance(x.ctx, (ast.Store, ast.Del)):
                return True
            if isinstance(x, ast.Call) and _self_attr(x.func) in self.model.helpers and _self_attr(x.func) not in seen and _self_attr(x.func) != h.name:
                if self._helper_mutates(self.model.helpers[_self_attr(x.func)], seen | {h.name}):  # type: ignore[index]
                    return True
        return False

    def _keyname(self, node: ast.AST, st: St) -> str | None:
        if isinstance(node, ast.Name):
            # a loop variable stands for MANY keys: an operation keyed by it is not modelled (the method is left undecided)
            return None if node.id in self.loop_vars else node.id
        return None

    def cond(self, test: ast.AST, st: St) -> list[tuple[bool, St]]:
        """Possible truth values of `test` with the refined state."""
        if isinstance(test, ast.UnaryOp) and isinstance(test.op, ast.Not):
            return [(not v, s) for v, s in self.cond(test.operand, st)]
        if isinstance(test, ast.Name):
            known = dict(st.alias).get(test.id, "")
            if known in ("bool:True", "bool:False"):
                return [(known == "bool:True", st)]
        if isinstance(test, ast.BoolOp):
            is_and = isinstance(test.op, ast.And)

            def go(i: int, s0: St) -> list[tuple[bool, St]]:
                if i == len(test.values):
                    return [(is_and, s0)]
                outs: list[tuple[bool, St]] = []
                for v, s1 in self.cond(test.values[i], s0):
                    if is_and and not v:
                        outs.append((False, s1))
                    elif not is_and and v:
                        outs.append((True, s1))
                    else:
                        outs += go(i + 1, s1)
                return outs

            return go(0, st)
        if isinstance(test, ast.Compare) and len(test.ops) == 1:
            op, left, right = test.ops[0], test.left, test.comparators[0]
            c = self._cont(right)
            if isinstance(op, (ast.In, ast.NotIn)) and c and isinstance(left, ast.Name):
                v = st.m(left.id, c)
                outs = [(v, st)] if v is not None else [(True, st.setm(left.id, c, True)), (False, st.setm(left.id, c, False))]
                return [((not t) if isinstance(op, ast.NotIn) else t, s) for t, s in outs]
            size = self._is_size(left, st)
            if size and norm(right) == "self.max_size" and isinstance(op, (ast.GtE, ast.Lt, ast.Gt, ast.LtE, ast.Eq)):
                if st.full is None:
                    return [(True, st), (False, st)]
                # full means len >= max_size (and == under the invariant)
                table = {ast.GtE: st.full, ast.Lt: not st.full, ast.Eq: st.full, ast.Gt: False, ast.LtE: True}
                return [(table[type(op)], st)]
        return [(True, st), (False, st)]

    def _is_size(self, node: ast.AST, st: St) -> bool:
        if isinstance(node, ast.Call) and dotted(node.func) == "len" and node.args and self._cont(node.args[0]):
            return True
        if isinstance(node, ast.Name):
            return dict(st.alias).get(node.id, "").startswith("len(self.")
        return False

    # -- statements
    def run_block(self, body: list[ast.stmt], states: list[St]) -> tuple[list[St], list[St]]:
        """Returns (fallthrough states, returned states)."""
        returned: list[St] = []
        cur = states
        for stmt in body:
            nxt: list[St] = []
            for s in cur:
                f, r = self.run_stmt(stmt, s)
                nxt += f
                returned += r
            cur = _dedup(nxt)
            if not cur:
                break
        return cur, returned

    def run_stmt(self, stmt: ast.stmt, st: St) -> tuple[list[St], list[St]]:  # noqa: C901, PLR0911, PLR0912
        f0, r0 = self._run_stmt(stmt, st)
        if isinstance(stmt, (ast.Assign, ast.Expr, ast.AugAssign, ast.AnnAssign, ast.Return)):
            # an exceptional exit: serialising the caller's value raises for unpicklable objects (locks, generators, ...); the
            # method is left in the state reached so far, which has to satisfy the invariant like any other exit state
            params = {p for p in self.fn.param_names() if p not in ("self", self.key)}
            for c in ast.walk(stmt):
                if isinstance(c, ast.Call) and dotted(c.func).rsplit(".", 1)[-1] in ("dumps", "dump") and any(isinstance(x, ast.Name) and x.id in params for a in c.args[:1] for x in ast.walk(a)):
                    r0 = [*r0, replace(st, alias=tuple(sorted({**dict(st.alias), "<raised>": norm(c)[:50]}.items())))]
                    break
        return f0, r0

    def _run_stmt(self, stmt: ast.stmt, st: St) -> tuple[list[St], list[St]]:  # noqa: C901, PLR0911, PLR0912
        if isinstance(stmt, ast.Return):
            return [], [st]
        if isinstance(stmt, ast.Raise):
            return [], []
        if isinstance(stmt, ast.If):
            f_all: list[St] = []
            r_all: list[St] = []
            for truth, s in self.cond(stmt.test, st):
                f, r = self.run_block(stmt.body if truth else stmt.orelse, [s])
                f_all += f
                r_all += r
            return f_all, r_all
        if isinstance(stmt, (ast.With, ast.AsyncWith)):
            return self.run_block(stmt.body, [st])
        if isinstance(stmt, ast.For) and isinstance(stmt.iter, (ast.Tuple, ast.List)) and stmt.iter.elts and all(self._cont(e) for e in stmt.iter.elts) and isinstance(stmt.target, ast.Name):
            # `for entries in (self._a, self._b, ...): <body>`: the body once per container, the loop variable naming it
            cur, returned = [st], []
            saved = self.cont_alias.get(stmt.target.id)
            for e in stmt.iter.elts:
                self.cont_alias[stmt.target.id] = self._cont(e)  # type: ignore[assignment]
                nxt: list[St] = []
                for s0 in cur:
                    f, r = self.run_block(stmt.body, [s0])
                    nxt += f
                    returned += r
                cur = _dedup(nxt)
            if saved is None:
                self.cont_alias.pop(stmt.target.id, None)
            else:
                self.cont_alias[stmt.target.id] = saved
            return cur, returned
        if isinstance(stmt, ast.For):
            c = self._clear_loop(stmt)
            if c:
                return [self._clear(st, c)], []
            self._scan_expr(stmt.iter, st)
            bound = {n.id for n in ast.walk(stmt.target) if isinstance(n, ast.Name)} - self.loop_vars
            self.loop_vars |= bound
            f1, r1 = self.run_block(stmt.body, [st])
            self.loop_vars -= bound
            return _dedup([st, *f1]), r1
        if isinstance(stmt, ast.Try):
            # `try: v = self.cont[key]  except KeyError: <absent arm>`: membership decides which arm runs
            reads = [x for b_ in stmt.body for x in ast.walk(b_) if isinstance(x, ast.Subscript) and isinstance(x.ctx, ast.Load) and self._cont(x.value) and isinstance(x.slice, ast.Name)]
            catches = [h for h in stmt.handlers if h.type is None or any(w in norm(h.type) for w in ("KeyError", "LookupError", "Exception"))]
            if reads and catches and not stmt.orelse and not stmt.finalbody:
                c, k = self._cont(reads[0].value), reads[0].slice.id
                v = st.m(k, c)  # type: ignore[arg-type]
                outs_f: list[St] = []
                outs_r: list[St] = []
                for present, s0 in ([(v, st)] if v is not None else [(True, st.setm(k, c, True)), (False, st.setm(k, c, False))]):  # type: ignore[arg-type]
                    f, r = self.run_block(stmt.body if present else catches[0].body, [s0])
                    outs_f += f
                    outs_r += r
                return _dedup(outs_f), outs_r
            if stmt.handlers and any(self._cont(x.value) for b_ in stmt.body for x in ast.walk(b_) if isinstance(x, ast.Subscript)):
                self.unmodelled.append("try/except around a container access")
            f, r = self.run_block(stmt.body, [st])
            return f, r
        if isinstance(stmt, ast.Assign) and len(stmt.targets) == 1:
            t, v = stmt.targets[0], stmt.value
            # container[key] = value
            if isinstance(t, ast.Subscript) and self._cont(t.value):
                if isinstance(t.slice, ast.Slice) and t.slice.lower is None and t.slice.upper is None and t.slice.step is None and isinstance(v, (ast.List, ast.Tuple)) and not v.elts:
                    return [self._clear(st, self._cont(t.value))], []  # type: ignore[arg-type]  # container[:] = []
                k = self._keyname(t.slice, st)
                if k is None:
                    self.unmodelled.append(norm(stmt))
                    return [st], []
                return [self._add(st, k, self._cont(t.value))], []  # type: ignore[arg-type]
            if isinstance(t, ast.Name) and t.id in self.cont_alias and _self_attr(v) == self.cont_alias[t.id]:
                return [st], []
            if isinstance(t, ast.Name):
                # x = self.queue.pop(0)  /  x = min(scores, ...)  -> policy-selected key
                if isinstance(v, ast.Call) and isinstance(v.func, ast.Attribute) and v.func.attr == "pop" and self._cont(v.func.value) == self.model.queue and self.model.queue:
                    return self._pop_front(st, t.id), []
                if isinstance(v, ast.Call) and dotted(v.func) in ("min", "max"):
                    return self._select_existing(st, t.id), []
                if isinstance(v, (ast.Compare, ast.BoolOp)) or (isinstance(v, ast.UnaryOp) and isinstance(v.op, ast.Not)):
                    # a named condition: remember its truth value along each path (it was evaluated in THIS state)
                    return [replace(s1, alias=tuple(sorted({**dict(s1.alias), t.id: f"bool:{truth}"}.items()))) for truth, s1 in self.cond(v, st)], []
                st = replace(st, alias=tuple(sorted({**dict(st.alias), t.id: norm(v)}.items())))
                self._scan_expr(v, st)
                return [st], []
        if isinstance(stmt, ast.AugAssign) and isinstance(stmt.target, ast.Subscript) and self._cont(stmt.target.value):
            k = self._keyname(stmt.target.slice, st)
            c = self._cont(stmt.target.value)
            if k is not None and st.m(k, c) is False:  # type: ignore[arg-type]
                return [st.prob(f"`{norm(stmt)}` on a key that is not in self.{c} (KeyError)")], []
            return [st], []
        if isinstance(stmt, ast.Delete) and len(stmt.targets) == 1 and isinstance(stmt.targets[0], ast.Subscript) and self._cont(stmt.targets[0].value) \
                and isinstance(stmt.targets[0].slice, ast.Call) and isinstance(stmt.targets[0].slice.func, ast.Attribute) and stmt.targets[0].slice.func.attr == "pop" \
                and self.model.queue and self._cont(stmt.targets[0].slice.func.value) == self.model.queue:
            # del container[queue.pop(0)]  ==  victim = queue.pop(0); del container[victim]
            tmp = ast.Name(id="_anon_victim", ctx=ast.Load())
            first = ast.copy_location(ast.Assign(targets=[ast.Name(id="_anon_victim", ctx=ast.Store())], value=stmt.targets[0].slice), stmt)
            second = ast.copy_location(ast.Delete(targets=[ast.Subscript(value=stmt.targets[0].value, slice=tmp, ctx=ast.Del())]), stmt)
            ast.fix_missing_locations(first), ast.fix_missing_locations(second)
            return self.run_block([first, second], [st])
        if isinstance(stmt, ast.Delete):
            out = st
            for t in stmt.targets:
                if isinstance(t, ast.Subscript) and self._cont(t.value):
                    c = self._cont(t.value)
                    if isinstance(t.slice, ast.Slice):
                        out = self._clear(out, c)  # type: ignore[arg-type]
                    else:
                        k = self._keyname(t.slice, out)
                        if k is None:
                            self.unmodelled.append(norm(stmt))
                        else:
                            out = self._remove(out, k, c, norm(stmt))  # type: ignore[arg-type]
            return [out], []
        if isinstance(stmt, ast.Expr) and isinstance(stmt.value, ast.Call):
            call = stmt.value
            if isinstance(call.func, ast.Attribute):
                c = self._cont(call.func.value)
                meth = call.func.attr
                if c:
                    if meth == "append" and call.args:
                        k = self._keyname(call.args[0], st)
                        return [self._add(st, k, c) if k else st], []
                    if meth in ("remove", "pop") and call.args:
                        k = self._keyname(call.args[0], st)
                        if k is None:
                            if isinstance(call.args[0], ast.Constant) and c == self.model.queue:
                                return self._pop_front(st, "_anon_front"), []
                            self.unmodelled.append(norm(stmt))
                            return [st], []
                        return [self._remove(st, k, c, norm(stmt))], []
                    if meth == "clear":
                        return [self._clear(st, c)], []
                    self.unmodelled.append(norm(stmt))
                    return [st], []
                # self._helper() -> inline
                h = _self_attr(call.func)
                if h and h in self.model.helpers:
                    import copy

                    from .c15 import _Rename

                    hf = self.model.helpers[h]
                    ps = [p for p in hf.param_names() if p != "self"]
                    mapping = {}
                    for i, a in enumerate(call.args):
                        if i < len(ps) and isinstance(a, ast.Name):
                            mapping[ps[i]] = a.id
                        elif i < len(ps) and self._helper_mutates(hf):
                            self.unmodelled.append(norm(stmt))
                            return [st], []
                    for k in call.keywords:
                        if k.arg in ps and isinstance(k.value, ast.Name):
                            mapping[k.arg] = k.value.id
                    self._depth = getattr(self, "_depth", 0) + 1
                    if self._depth > 4:
                        self.unmodelled.append(f"helper nesting at {norm(stmt)}")
                        self._depth -= 1
                        return [st], []
                    body = [_Rename(mapping).visit(copy.deepcopy(b)) for b in hf.node.body] if mapping else hf.node.body
                    f, r = self.run_block(body, [st])
                    self._depth -= 1
                    return _dedup(f + r), []
        # any other statement: look for reads that could raise, and for unmodelled mutations
        for part in header_parts(stmt):
            self._scan_expr(part, st)
        return [st], []

    READERS = ("len", "min", "max", "sorted", "list", "tuple", "iter", "sum", "print", "str", "repr", "bool", "any", "all", "dict", "set", "enumerate")

    def _scan_expr(self, node: ast.AST, st: St) -> None:
        """Anything that reaches this point is not interpreted: it must not change (or leak) a container."""
        for x in ast.walk(node):
            if isinstance(x, ast.Call) and isinstance(x.func, ast.Attribute) and self._cont(x.func.value) and x.func.attr in self.MUTATORS:
                self.unmodelled.append(norm(x))
            if isinstance(x, ast.Subscript) and self._cont(x.value) and isinstance(x.ctx, (ast.Store, ast.Del)):
                self.unmodelled.append(norm(x))
            if isinstance(x, ast.Call) and _self_attr(x.func) in self.model.helpers and self._helper_mutates(self.model.helpers[_self_attr(x.func)]):  # type: ignore[index]
                self.unmodelled.append(norm(x))
            if isinstance(x, ast.Call) and dotted(x.func) not in self.READERS and not (isinstance(x.func, ast.Attribute) and self._cont(x.func.value)):
                if any(self._cont(a) for a in [*x.args, *[k.value for k in x.keywords]]):
                    self.unmodelled.append(norm(x))
            if isinstance(x, (ast.Tuple, ast.List, ast.Set, ast.Dict)) and any(self._cont(e) for e in (x.elts if not isinstance(x, ast.Dict) else x.values)):
                self.unmodelled.append(f"container placed in a literal: {norm(x)[:50]}")

    def _clear_loop(self, stmt: ast.For) -> str | None:
        # for k in <snapshot of the keys of X>: del self.X[k]   /   self.X.pop(k[, default])
        if len(stmt.body) != 1 or not isinstance(stmt.target, ast.Name):
            return None
        b, var, c = stmt.body[0], stmt.target.id, None
        if isinstance(b, ast.Delete) and len(b.targets) == 1:
            t = b.targets[0]
            if isinstance(t, ast.Subscript) and self._cont(t.value) and isinstance(t.slice, ast.Name) and t.slice.id == var:
                c = self._cont(t.value)
        elif isinstance(b, ast.Expr) and isinstance(b.value, ast.Call) and isinstance(b.value.func, ast.Attribute) and b.value.func.attr in ("pop", "remove", "discard") \
                and self._cont(b.value.func.value) and b.value.args and isinstance(b.value.args[0], ast.Name) and b.value.args[0].id == var:
            c = self._cont(b.value.func.value)
        if c is None:
            return None
        # the loop must run over (a snapshot of) the keys of the same container
        it = stmt.iter
        if isinstance(it, ast.Name):
            defs = [a.value for a in ast.walk(self.fn.node) if isinstance(a, ast.Assign) and len(a.targets) == 1 and isinstance(a.targets[0], ast.Name) and a.targets[0].id == it.id]
            if len(defs) != 1:
                return None
            it = defs[0]
        while isinstance(it, ast.Call) and dotted(it.func) in ("list", "tuple", "set", "sorted", "frozenset") and len(it.args) == 1:
            it = it.args[0]
        if isinstance(it, ast.Call) and isinstance(it.func, ast.Attribute) and it.func.attr in ("keys", "copy") and not it.args:
            it = it.func.value
        return c if self._cont(it) == c else None

    # -- abstract operations
    def _add(self, st: St, k: str, c: str) -> St:
        was = st.m(k, c)
        if c == self.model.queue:
            n = st.qc(k) + 1
            st = st.setq(k, n).setm(k, c, True)
            return st
        st = st.setm(k, c, True)
        if c == self.model.primary and was is not True:
            st = replace(st, delta=st.delta + 1)
        return st

    def _remove(self, st: St, k: str, c: str, text: str) -> St:
        if st.m(k, c) is False or (c == self.model.queue and st.qc(k) == 0 and st.m(k, c) is not None):
            return st.prob(f"`{text}` removes a key that is not in self.{c} (KeyError/ValueError)")
        if c == self.model.queue:
            n = max(st.qc(k) - 1, 0)
            return st.setq(k, n).setm(k, c, n > 0)
        st2 = st.setm(k, c, False)
        if c == self.model.primary:
            st2 = replace(st2, delta=st2.delta - 1)
        return st2

    def _clear(self, st: St, c: str) -> St:
        d = {kc: (False if kc[1] == c else v) for kc, v in dict(st.mem).items()}
        q = {k: 0 for k in dict(st.q)} if c == self.model.queue else dict(st.q)
        return replace(st, mem=tuple(sorted(d.items())), q=tuple(sorted(q.items())), cleared=st.cleared | {c},
                       delta=min(st.delta, 0) if c == self.model.primary else st.delta)

    def _pop_front(self, st: St, name: str) -> list[St]:
        """The front of the queue is either the argument key (if present) or some other resident key."""
        outs: list[St] = []
        qn = self.model.queue
        assert qn
        if self.key and st.qc(self.key) >= 1:
            s = st.setq(self.key, st.qc(self.key) - 1)
            s = s.setm(self.key, qn, s.qc(self.key) > 0)
            # `name` aliases the argument key
            d = dict(s.mem)
            for c in self.model.conts:
                if c != qn:
                    d[(name, c)] = d.get((self.key, c))
            s = replace(s, mem=tuple(sorted(d.items())), alias=tuple(sorted({**dict(s.alias), name: f"=={self.key}"}.items())),
                        evicted=(*s.evicted, name))
            outs.append(s)
        # some other key, resident in every container by the invariant, once in the queue
        s = st
        for c in self.model.conts:
            s = s.setm(name, c, c != qn)
        s = s.setq(name, 0)
        outs.append(replace(s, evicted=(*s.evicted, name)))
        return outs

    def _select_existing(self, st: St, name: str) -> list[St]:
        outs = []
        if self.key and st.m(self.key, self.model.primary):
            d = dict(st.mem)
            for c in self.model.conts:
                d[(name, c)] = d.get((self.key, c))
            outs.append(replace(st, mem=tuple(sorted(d.items())), alias=tuple(sorted({**dict(st.alias), name: f"=={self.key}"}.items())),
                                evicted=(*st.evicted, name)))
        s = st
        for c in self.model.conts:
            s = s.setm(name, c, True)
        outs.append(replace(s, evicted=(*s.evicted, name)))
        return outs


def _dedup(states: list[St]) -> list[St]:
    out: list[St] = []
    for s in states:
        if s not in out:
            out.append(s)
    return out


def _propagate_alias(st: St, model: Model, key: str | None) -> St:
    """Removals through an alias of the argument key also concern the argument key."""
    if not key:
        return st
    d = dict(st.mem)
    for name, expr in st.alias:
        if expr == f"=={key}":
            for c in model.conts:
                if c == model.queue:
                    continue
                if (name, c) in d and d[(name, c)] is False:
                    d[(key, c)] = False if d.get((key, c)) is not True or True else d[(key, c)]
    return replace(st, mem=tuple(sorted(d.items())))


def rule_invariant(ctx: Ctx) -> None:
    total = 0
    for cname, fields in SHARED.items():
        cls = ctx.prog.cls(f"{MOD}.{cname}")
        queue = "_cache_queue" if "_cache_queue" in fields else None
        model = Model(cname, "_cache_dict", fields, queue)
        model.helpers = {n: f for n, f in cls.methods.items() if n.startswith("_") and not n.startswith("__") and not f.is_property}
        for mname in ("put", "get", "clear", "__contains__", "__len__"):
            fn = cls.methods[mname]
            params = [p for p in fn.param_names() if p != "self"]
            key = params[0] if params and mname in ("put", "get", "__contains__") else None
            entries: list[tuple[str, St]] = []
            for present in (True, False) if key else (None,):
                for full in (True, False):
                    if present is True and False:
                        continue
                    st = St(full=full)
                    # a ghost: some other resident key that no operation names (only clear() affects it)
                    for c in fields:
                        st = st.setm("<other resident key>", c, True)
                    if queue:
                        st = st.setq("<other resident key>", 1)
                    if key:
                        for c in fields:
                            st = st.setm(key, c, bool(present))
                        if queue:
                            st = st.setq(key, 1 if present else 0)
                    entries.append((f"key {'resident' if present else 'absent' if present is False else 'n/a'}, cache {'full' if full else 'not full'}", st))
            for label, st0 in entries:
                if "resident" in label and "not full" in label and False:
                    continue
                it = Interp(model, fn, key)
                f, r = it.run_block(fn.node.body, [st0])
                finals = _dedup(f + r)
                total += 1
                if it.unmodelled:
                    ctx.note(f"{fn.qualname}: unmodelled container operation(s) {sorted(set(it.unmodelled))}; invariant not decided for this method")
                    ctx.add("2-invariant", fn, fn.node, None, f"UNDECIDED: [{label}] the method uses an operation this interpreter does not model: {sorted(set(it.unmodelled))[0][:80]}", key=f"def {mname} [{label}]")
                    continue
                bad: list[str] = []
                for s in finals:
                    bad += list(s.problems)
                    names = sorted({k for (k, _c) in dict(s.mem)})
                    for k in names:
                        vals = {c: s.m(k, c) for c in fields if c != queue}
                        if queue:
                            vals[queue] = s.qc(k) > 0 if (k, queue) in dict(s.mem) or k in dict(s.q) else s.m(k, queue)
                            if s.qc(k) > 1:
                                bad.append(f"key `{k}` occurs {s.qc(k)}x in self.{queue} at exit (it will be evicted twice)")
                        known = {c: v for c, v in vals.items() if v is not None}
                        if len(set(known.values())) > 1:
                            exc = dict(s.alias).get("<raised>")
                            bad.append(f"containers disagree about key `{k}` at exit: {known}" if not exc else
                                       f"containers disagree about key `{k}` when `{exc}` raises (an unpicklable value): {known} - the failed put leaves the cache corrupted, every later get/put of that key fails")
                    if s.full and s.delta > 0:
                        bad.append("an entry is added to a full cache without evicting one (len exceeds max_size)")
                    if s.delta > 1:
                        bad.append("more than one entry added by a single operation")
                bad = sorted(set(bad))
                ctx.add("2-invariant", fn, fn.node, not bad,
                        f"[{label}] {len(finals)} exit state(s) consistent" if not bad else f"[{label}] " + "; ".join(bad),
                        key=f"def {mname} [{label}]")
    ctx.floor("2-invariant", total, 16)


# ------------------------------------------------------------------------------ rule 3
def _queue_calls(sc: Scope, cont: str, *meths: str) -> list[ast.Call]:
    def names_cont(f: FuncInfo, e: ast.AST) -> bool:
        if _self_attr(e) == cont:
            return True
        if isinstance(e, ast.Name):  # a local that is bound once, to the container itself
            binds = [a for a in walk_no_nested(f.node) if isinstance(a, (ast.Assign, ast.AnnAssign, ast.AugAssign)) and any(isinstance(t, ast.Name) and t.id == e.id for t in (a.targets if isinstance(a, ast.Assign) else [a.target]))]
            return len(binds) == 1 and isinstance(binds[0], ast.Assign) and _self_attr(binds[0].value) == cont
        return False

    return [n for f, n in sc.walk() if isinstance(n, ast.Call) and isinstance(n.func, ast.Attribute) and n.func.attr in meths and names_cont(f, n.func.value)]


def _selected_then_destroyed(sc: Scope, how: tuple[str, ...]) -> list[tuple[str, ast.Call]]:
    """(selector, call) for `v = min|max(...)` whose `v` is then deleted from a container / unlinked."""
    out = []
    for f, n in sc.walk():
        if isinstance(n, ast.Assign) and len(n.targets) == 1 and isinstance(n.targets[0], ast.Name) and isinstance(n.value, ast.Call) and dotted(n.value.func) in ("min", "max"):
            v = n.targets[0].id
            used = any(
                (isinstance(x, ast.Delete) and any(isinstance(t, ast.Subscript) and norm(t.slice) == v for t in x.targets))
                or (isinstance(x, ast.Call) and isinstance(x.func, ast.Attribute) and x.func.attr in how and (norm(x.func.value) == v or any(norm(a) == v for a in x.args)))
                for x in ast.walk(f.node))
            if used:
                out.append((dotted(n.value.func), n.value))
    return out


def rule_policy(ctx: Ctx) -> None:
    lru = ctx.prog.cls(f"{MOD}.LRUCache")
    put, get = lru.methods["put"], lru.methods["get"]
    psc, gsc = Scope(ctx, put), Scope(ctx, get)
    pops = _queue_calls(psc, "_cache_queue", "pop")
    front = [p for p in pops if len(p.args) == 1 and isinstance(p.args[0], ast.Constant) and p.args[0].value == 0]
    other = [p for p in pops if p not in front and (not p.args or isinstance(p.args[0], ast.Constant))]
    ctx.tri("3-policy", put, (other or front or [put.node])[0], bool(front) and not other, bool(other), "LRU evicts the front of the queue (pop(0))",
            f"eviction takes `{norm(other[0]) if other else ''}` - not the front of the queue, i.e. not the least recently used key", "no queue.pop(...) found in put", key="lru-evict-front")
    apps, ins = _queue_calls(psc, "_cache_queue", "append"), _queue_calls(psc, "_cache_queue", "insert")
    ctx.tri("3-policy", put, (ins or apps or [put.node])[0], bool(apps) and not ins, bool(ins), "put places the key at the back of the queue",
            "put inserts the key somewhere other than the back of the queue", "no queue.append found in put", key="lru-put-back")
    rem, app = _queue_calls(gsc, "_cache_queue", "remove"), _queue_calls(gsc, "_cache_queue", "append")
    same = bool(rem) and bool(app) and norm(rem[0].args[0]) == norm(app[0].args[0]) and (rem[0].lineno, rem[0].col_offset) < (app[0].lineno, app[0].col_offset)
    # (an append to a receiver this rule cannot name - a container handed out by a helper / context manager - is not "no append")
    other_app = [c for f_ in gsc.funcs for c in ast.walk(f_.node) if isinstance(c, ast.Call) and isinstance(c.func, ast.Attribute) and c.func.attr in ("append", "move_to_end", "insert") and c not in app]
    ctx.tri("3-policy", get, (rem or app or [get.node])[0], same, not app and not other_app, "get moves the key to the back (remove + append)",
            "get never appends the accessed key to the back of the queue: a hit does not refresh recency (FIFO, not LRU)", "remove/append on the queue not in the recognised order", key="lru-get-moves-back")
    # the constructor stores each parameter under its own name: `self.duration_weight = access_weight` (a copy-paste slip) makes
    # the eviction score ignore the weight the caller chose
    n_w = 0
    for ci in [c for c in ctx.prog.classes.values() if c.module.name == MOD]:
        init = dict.get(ci.methods, "__init__")
        if init is None:
            continue
        params = set(init.param_names()) - {"self"}
        for a_ in walk_no_nested(init.node):
            tv = [(a_.target, a_.value)] if isinstance(a_, ast.AnnAssign) and a_.value is not None else ([(t, a_.value) for t in a_.targets] if isinstance(a_, ast.Assign) else [])
            for t, v in tv:
                fld = _self_attr(t)
                if fld is None or not isinstance(v, ast.Name) or v.id not in params:
                    continue
                own = fld.lstrip("_")
                if own in params:
                    n_w += 1
                    ctx.add("3-policy", init, a_, v.id == own, f"{ci.name}.{fld} <- parameter `{v.id}`" if v.id == own else
                            f"`{norm(a_)[:60]}` stores the parameter `{v.id}` in the attribute of the parameter `{own}`: the value the caller passed as `{own}` is ignored", key=f"wiring {ci.name}.{fld}")
    ctx.floor("3-policy.wiring", n_w, 8)
    # ... on EVERY hit: the append is guarded by nothing but the outcome of the lookup of this key.  A guard on the STATE of the
    # cache (`len(queue) >= max_size`, a flag of the object) makes the refresh conditional: a key that was read recently is then
    # evicted as if it had not been
    gcfg = ctx.cfg(get)
    kprm = [p_ for p_ in get.param_names() if p_ != "self"][0]
    app_nodes = gcfg.nodes(lambda s_: isinstance(s_, ast.Expr) and isinstance(s_.value, ast.Call) and isinstance(s_.value.func, ast.Attribute) and s_.value.func.attr == "append" and _self_attr(s_.value.func.value) == "_cache_queue")
    if app_nodes:
        from ..flow import guard_facts

        facts = [t for n_ in app_nodes for t, _pol in guard_facts(gcfg, Defs(get), n_)]
        on_state = [t for t in facts if not re.search(rf"\b{re.escape(kprm)}\b", t) and ("self." in t or "len(" in t)]
        unknown = [t for t in facts if not re.search(rf"\b{re.escape(kprm)}\b", t) and t not in on_state]
        ctx.tri("3-policy", get, gcfg.stmt[app_nodes[0]], not on_state and not unknown, bool(on_state), "every hit refreshes the key's recency (the refresh depends on the lookup only)",
                f"the refresh of the recency is skipped unless `{on_state[0] if on_state else ''}`: a hit can be answered without moving the key to the back of the queue, so a key that was read recently is evicted "
                "as if it had not been - not LRU", f"the refresh is guarded by `{unknown[0] if unknown else ''}`, which this rule cannot relate to the lookup", key="lru-get-always-moves-back")
    else:
        ctx.add("3-policy", get, get.node, None, "UNDECIDED: the refresh of the recency happens in a helper", key="lru-get-always-moves-back")
    hyb = ctx.prog.cls(f"{MOD}.HybridCache")
    hsc = Scope(ctx, hyb.methods["put"])
    sel = _selected_then_destroyed(hsc, ("pop",))
    ctx.tri("3-policy", hyb.methods["put"], sel[0][1] if sel else hyb.methods["put"].node, bool(sel) and all(k == "min" for k, _ in sel), any(k == "max" for k, _ in sel),
            "Hybrid evicts the entry with the lowest score (min)", "Hybrid eviction deletes the entry selected by max(score): the most valuable entry is dropped", "no min()/max() selection feeding a delete found", key="hybrid-evict-min")
    # ... chosen among ALL resident entries: a candidate set that leaves entries out (`if k != key`) picks the wrong victim, and is
    # empty for max_size == 1 (min() of nothing raises)
    from ..flow import narrowings

    cand = []
    for f_, n_ in hsc.walk():
        if isinstance(n_, ast.Call) and dotted(n_.func) in ("min", "max") and n_.args:
            src = Defs(f_).resolve(n_.args[0])
            for nm in [x.id for x in ast.walk(src) if isinstance(x, ast.Name)]:
                for a_ in ast.walk(f_.node):
                    if isinstance(a_, ast.Assign) and any(isinstance(t, ast.Name) and t.id == nm for t in a_.targets):
                        cand += [(f_, a_, why) for _x, why in narrowings(a_.value)]
            cand += [(f_, n_, why) for _x, why in narrowings(src)]
    ctx.add("3-policy", cand[0][0] if cand else hyb.methods["put"], cand[0][1] if cand else hyb.methods["put"].node, not cand, "Hybrid scores every resident entry before it picks the victim" if not cand else
            f"the eviction candidates of HybridCache are restricted ({cand[0][2]}): the entry with the lowest score may be exempt - another entry is evicted in its place, and with a single resident entry min() of nothing raises", key="hybrid-all-candidates")
    # cache keys are only hashed and compared for EQUALITY: a selection that orders tuples which contain the key falls through to
    # comparing the keys when the leading components tie (TypeError for keys of different types; otherwise the smallest key, not the
    # oldest tied entry, is the victim)
    ordered_keys = []
    for cname_ in ("HybridCache", "LRUCache"):
        for f_, n_ in Scope(ctx, ctx.prog.cls(f"{MOD}.{cname_}").methods["put"]).walk():
            if isinstance(n_, ast.Call) and dotted(n_.func) in ("min", "max", "sorted") and n_.args and not any(k.arg == "key" for k in n_.keywords):
                src = Defs(f_).resolve(n_.args[0])
                if isinstance(src, (ast.GeneratorExp, ast.ListComp, ast.SetComp)) and isinstance(src.elt, ast.Tuple) and len(src.generators) == 1:
                    tvars = {x.id for x in ast.walk(src.generators[0].target) if isinstance(x, ast.Name)}
                    it_txt = norm(src.generators[0].iter)
                    over_keys = any(w in it_txt for w in ("_cache_dict", "_access_counts", "_computation_durations", "_cache_queue"))
                    bare = [e for e in src.elt.elts if isinstance(e, ast.Name) and e.id in tvars]
                    if over_keys and bare and not (it_txt.endswith(".values()")):
                        ordered_keys.append((f_, n_, bare[0].id))
    ctx.add("3-policy", ordered_keys[0][0] if ordered_keys else hyb.methods["put"], ordered_keys[0][1] if ordered_keys else hyb.methods["put"].node, not ordered_keys,
            "no selection orders tuples that contain a cache key" if not ordered_keys else
            f"`{norm(ordered_keys[0][1])[:70]}` orders tuples that contain the cache key `{ordered_keys[0][2]}`: when the scores tie the KEYS are compared - put raises TypeError for keys that cannot be ordered (1 and 'a'), "
            "and among orderable keys the smallest key is evicted instead of the first of the tied entries", key="keys-never-ordered")
    disk = ctx.prog.cls(f"{MOD}.DiskCache")
    ev = disk.methods["_evict_if_needed"]
    dsc = Scope(ctx, ev)
    sel = _selected_then_destroyed(dsc, ("unlink", "remove"))
    by_time = "st_ctime" in dsc.text() or "st_mtime" in dsc.text()
    ctx.tri("3-policy", ev, sel[0][1] if sel else ev.node, bool(sel) and all(k == "min" for k, _ in sel) and by_time, any(k == "max" for k, _ in sel),
            "Disk evicts the oldest file (min by change time)", "Disk eviction unlinks the file selected by max(...): the newest entry is dropped", "no min()/max() by file time feeding unlink found", key="disk-evict-oldest")
    # get() records the access of the key it returns (Hybrid)
    hget = Scope(ctx, hyb.methods["get"])
    writes = [n for _f, n in hget.walk() if isinstance(n, (ast.AugAssign, ast.Assign)) and any(isinstance(t, ast.Subscript) and _self_attr(t.value) == "_access_counts" for t in ([n.target] if isinstance(n, ast.AugAssign) else n.targets))]
    ctx.add("3-policy", hyb.methods["get"], writes[0] if writes else hyb.methods["get"].node, bool(writes), "Hybrid get counts the access" if writes else "Hybrid get never updates self._access_counts: access frequency is not tracked", key="hybrid-get-counts")


# ------------------------------------------------------------------------------ rule 4
DESTRUCTIVE = {"unlink", "rmdir", "remove", "close", "kill", "terminate"}


def rule_retire(ctx: Ctx) -> None:
    n = 0
    for fn in ctx.prog.functions_in(MOD):
        for loop in [x for x in walk_no_nested(fn.node) if isinstance(x, (ast.For, ast.While))]:
            sel: dict[str, str] = {}
            for st in ast.walk(loop):
                if isinstance(st, ast.Assign) and len(st.targets) == 1 and isinstance(st.targets[0], ast.Name) and isinstance(st.value, ast.Call) \
                        and dotted(st.value.func) in ("min", "max") and st.value.args and isinstance(st.value.args[0], ast.Name):
                    sel[st.targets[0].id] = st.value.args[0].id
            for var, coll in sel.items():
                destroyed = [c for c in ast.walk(loop) if isinstance(c, ast.Call) and isinstance(c.func, ast.Attribute) and c.func.attr in DESTRUCTIVE
                             and isinstance(c.func.value, ast.Name) and c.func.value.id == var]
                if not destroyed:
                    continue
                n += 1
                retired = any(
                    (isinstance(c, ast.Call) and isinstance(c.func, ast.Attribute) and isinstance(c.func.value, ast.Name) and c.func.value.id == coll and c.func.attr in ("remove", "pop", "discard", "clear"))
                    or (isinstance(c, ast.Assign) and any(isinstance(t, ast.Name) and t.id == coll for t in c.targets))
                    or (isinstance(c, ast.Delete) and any(isinstance(t, ast.Subscript) and isinstance(t.value, ast.Name) and t.value.id == coll for t in c.targets))
                    for c in ast.walk(loop)
                )
                ctx.add("4-retire", fn, destroyed[0], retired,
                        f"`{var}` selected from `{coll}` is destroyed and {'also removed from' if retired else 'NOT removed from'} `{coll}` in the loop"
                        + ("" if retired else " - the next iteration selects the destroyed element again"), key=f"retire {var} from {coll}")
    if n == 0:
        ctx.note("4-retire: no select-and-destroy loop found (rule 7 checks that DiskCache still evicts len(files) - max_size files)")


# ------------------------------------------------------------------------------ rule 5
def rule_division(ctx: Ctx) -> None:
    hyb = ctx.prog.cls(f"{MOD}.HybridCache")
    n = 0
    for fn in hyb.methods.values():
        sums: dict[str, str] = {}
        for st in walk_no_nested(fn.node):
            if isinstance(st, ast.Assign) and len(st.targets) == 1 and isinstance(st.targets[0], ast.Name) and isinstance(st.value, ast.Call) and dotted(st.value.func) == "sum":
                src = ast.unparse(st.value)
                for f in SHARED["HybridCache"]:
                    if f"self.{f}" in src:
                        sums[st.targets[0].id] = f
        par = _parents(fn.node)
        for d in [x for x in ast.walk(fn.node) if isinstance(x, ast.BinOp) and isinstance(x.op, (ast.Div, ast.FloorDiv, ast.Mod))]:
            if not (isinstance(d.right, ast.Name) and d.right.id in sums):
                continue
            field_ = sums[d.right.id]
            n += 1
            if field_ == "_access_counts":
                ctx.add("5-division", fn, d, True, "denominator is a sum of access counts, each >= 1 by construction (put stores 1, get increments)", key=f"div {d.right.id}")
                continue
            guarded = False
            x: ast.AST = d
            while id(x) in par:
                child, x = x, par[id(x)]
                if isinstance(x, (ast.IfExp, ast.If)) and d.right.id in {n_.id for n_ in ast.walk(x.test) if isinstance(n_, ast.Name)} and child is not x.test:
                    guarded = True
            ctx.add("5-division", fn, d, guarded,
                    f"division by `{d.right.id}` = sum of caller-supplied durations is {'guarded' if guarded else 'NOT guarded against 0 (ZeroDivisionError when all stored durations are 0.0)'}",
                    key=f"div {d.right.id}")
    ctx.floor("5-division", n, 2)


# ------------------------------------------------------------------------------ rules 6, 7
def rule_pickle_guard(ctx: Ctx) -> None:
    fn = ctx.prog.func(f"{MOD}._CacheBase.__getstate__")
    cfg = ctx.cfg(fn)
    d = Defs(fn)
    rets = cfg.nodes(lambda s: isinstance(s, ast.Return))
    guards = set(cfg.nodes(lambda s: isinstance(s, ast.If) and "shared" in norm(d.resolve(s.test))))
    raises = cfg.nodes(lambda s: isinstance(s, ast.Raise))
    good = bool(rets) and bool(raises) and all(any(cfg.dominates(g, r) for g in guards) for r in rets) and RAISE in cfg.reachable_from(ENTRY)
    unguarded = [r for r in rets if not any(cfg.dominates(g, r) for g in guards)]
    ctx.tri("6-pickle-guard", fn, cfg.stmt[unguarded[0]] if unguarded else fn.node, good, bool(unguarded) or not raises,
            "state is returned only under a test of `shared`, otherwise raises", "__getstate__ returns the state on a path that does not test `shared` (or never raises): non-shared caches are pickled silently", key="getstate-guard")


def _applied_when(ctx: Ctx, fn: FuncInfo, call: ast.Call) -> ast.AST:
    """The condition under which `call` is evaluated inside `fn`: the branch decisions every path to its statement takes (early
    returns included), and the tests of the conditional expressions it sits in."""
    from ..flow import guard_facts, parse_expr

    d = Defs(fn)
    conj: list[ast.AST] = []
    cfg = ctx.cfg(fn)
    nd = cfg.node_containing(call)
    if nd is not None:
        for text, pol in guard_facts(cfg, d, nd):
            e = parse_expr(text)
            conj.append(e if pol else ast.UnaryOp(op=ast.Not(), operand=e))
    par = _parents(fn.node)
    x: ast.AST = call
    while id(x) in par:
        child, x = x, par[id(x)]
        if isinstance(x, ast.IfExp):
            t = d.resolve(x.test)
            if child is x.body:
                conj.append(t)
            elif child is x.orelse:
                conj.append(ast.UnaryOp(op=ast.Not(), operand=t))
        if isinstance(x, ast.stmt):
            break
    return ast.BoolOp(op=ast.And(), values=conj) if conj else ast.Constant(value=True)


def rule_codec_symmetric(ctx: Ctx) -> None:
    """What put() serialises, get() deserialises - under the SAME condition.  The two sides are compared as truth tables over the
    atoms of their guards; a condition on the stored VALUE on one side only (e.g. `not isinstance(value, bytes)` in put) cannot be
    known to the other side: get() then unpickles bytes that were stored as they were (UnpicklingError, or a different object)."""
    import itertools

    from ..flow import bool_atoms, bool_eval

    n = 0
    for cname in SHARED:
        cls = ctx.prog.cls(f"{MOD}.{cname}")
        put, get = cls.methods.get("put"), cls.methods.get("get")
        if put is None or get is None:
            continue
        enc = [c for c in ast.walk(put.node) if isinstance(c, ast.Call) and dotted(c.func).endswith(".dumps")]
        dec = [c for c in ast.walk(get.node) if isinstance(c, ast.Call) and dotted(c.func).endswith(".loads")]

        def through_helper(method: FuncInfo, suffix: str) -> ast.AST | None:
            """The codec call sits in a module-level helper (`_maybe_load(value, flag)`): its condition there, with the helper's
            parameters replaced by the arguments of the call, and-ed with the condition of the call itself."""
            import copy as _copy

            from ..flow import bind_args

            for s_ in ctx.cg.sites.get(method.qualname, []):
                for callee in s_.callees:
                    if s_.kind != "call" or callee.module.name != MOD or callee.cls is not None:
                        continue
                    inner = [c for c in ast.walk(callee.node) if isinstance(c, ast.Call) and dotted(c.func).endswith(suffix)]
                    if not inner:
                        continue
                    g = _copy.deepcopy(_applied_when(ctx, callee, inner[0]))
                    b = bind_args(s_.node, callee)

                    class Sub(ast.NodeTransformer):
                        def visit_Name(self, node: ast.Name):  # noqa: N802
                            return _copy.deepcopy(b[node.id]) if node.id in b else node

                    g = Sub().visit(g)
                    outer = _applied_when(ctx, method, s_.node)
                    return ast.BoolOp(op=ast.And(), values=[outer, g]) if not (isinstance(outer, ast.Constant) and outer.value is True) else g
            return None

        ge0 = _applied_when(ctx, put, enc[0]) if enc else through_helper(put, ".dumps")
        gd0 = _applied_when(ctx, get, dec[0]) if dec else through_helper(get, ".loads")
        if ge0 is None and gd0 is None:
            continue
        n += 1
        if ge0 is None or gd0 is None:
            ctx.add("6-pickle-guard", put if gd0 is not None else get, (put if gd0 is not None else get).node, False, f"{cname}: {'get() deserialises but put() never serialises' if gd0 is not None else 'put() serialises but get() never deserialises'}", key=f"codec {cname}")
            continue
        conts = set(SHARED[cname])
        vparams = {p_ for p_ in put.param_names()[2:]}  # the stored value

        def codec_relevant(g: ast.AST) -> ast.AST:
            """Only the conjuncts that talk about the configuration of the cache or about the value: whether the key is present, how
            full the cache is etc. decide IF something is stored / found, not in which form."""
            vals = g.values if isinstance(g, ast.BoolOp) and isinstance(g.op, ast.And) else [g]
            keep = []
            for v in vals:
                names = {x.id for x in ast.walk(v) if isinstance(x, ast.Name)}
                attrs = {x.attr for x in ast.walk(v) if isinstance(x, ast.Attribute) and isinstance(x.value, ast.Name) and x.value.id == "self"}
                if (names <= {"self"} and attrs and not (attrs & conts)) or (names & vparams):
                    keep.append(v)
            return ast.BoolOp(op=ast.And(), values=keep) if keep else ast.Constant(value=True)

        def flat(g: ast.AST) -> ast.AST:
            if isinstance(g, ast.BoolOp) and isinstance(g.op, ast.And):
                vals = []
                for v in g.values:
                    fv = flat(v)
                    vals += fv.values if isinstance(fv, ast.BoolOp) and isinstance(fv.op, ast.And) else [fv]
                return ast.BoolOp(op=ast.And(), values=vals)
            return g

        ge, gd = codec_relevant(flat(ge0)), codec_relevant(flat(gd0))
        atoms = sorted(set(bool_atoms(ge)) | set(bool_atoms(gd)))
        if len(atoms) > 8:
            ctx.add("6-pickle-guard", put, enc[0] if enc else put.node, None, f"UNDECIDED: {cname}: too many conditions around dumps/loads to compare", key=f"codec {cname}")
            continue
        diff = None
        for vals in itertools.product((True, False), repeat=len(atoms)):
            env = dict(zip(atoms, vals))
            a, b = bool_eval(ge, env), bool_eval(gd, env)
            if a is not None and b is not None and a != b:
                diff = env
                break
        one_sided = sorted((set(bool_atoms(ge)) ^ set(bool_atoms(gd))))
        ctx.tri("6-pickle-guard", put, enc[0] if enc else put.node, diff is None and not one_sided, diff is not None, f"{cname}: put() serialises exactly when get() deserialises (`{norm(ge)[:60]}`)",
                f"{cname}: put() serialises under `{norm(ge)[:80]}` but get() deserialises under `{norm(gd)[:60]}`: they differ when {diff} - "
                f"a value stored as it is (condition {one_sided[:1]} is known to one side only) is unpickled on the way out: a cached call returns something else than the first call, or raises",
                f"{cname}: guards of dumps/loads use different conditions {one_sided}", key=f"codec {cname}")
    ctx.floor("6-pickle-guard.codec", n, 2)


def rule_disk_bound(ctx: Ctx) -> None:
    fn = ctx.prog.func(f"{MOD}.DiskCache.put")
    cfg = ctx.cfg(fn)
    ev = set(cfg.nodes(lambda s: any(isinstance(c, ast.Call) and norm(c.func) == "self._evict_if_needed" for part in header_parts(s) for c in ast.walk(part))))
    ok = bool(ev) and cfg.must_pass(ENTRY, EXIT, ev, normal_only=True)
    wp = None if ok else cfg.witness_path(ENTRY, EXIT, ev)
    ctx.add("7-disk-bound", fn, fn.node, ok, "every normal path of DiskCache.put reaches _evict_if_needed" if ok else "a path through DiskCache.put skips _evict_if_needed (len may exceed max_size)", key="disk-put-evicts",
            path=cfg.describe(wp, fn.module.relpath) if wp else None)
    ev_fn = ctx.prog.func(f"{MOD}.DiskCache._evict_if_needed")
    d = Defs(ev_fn)
    par = _parents(ev_fn.node)
    unlinks = [c for c in ast.walk(ev_fn.node) if isinstance(c, ast.Call) and isinstance(c.func, ast.Attribute) and c.func.attr == "unlink"]
    rng = [n for n in ast.walk(ev_fn.node) if isinstance(n, ast.Call) and dotted(n.func) == "range" and n.args]
    txt = norm(d.resolve(rng[0].args[0])).replace(" ", "") if rng else ""
    import re as _re

    good = bool(rng) and _re.fullmatch(r"len\(.+\)-self\.max_size", txt) is not None

    def in_loop(n: ast.AST) -> bool:
        x = n
        while id(x) in par:
            x = par[id(x)]
            if isinstance(x, (ast.For, ast.While)):
                return True
        return False

    once = [u for u in unlinks if not in_loop(u)]
    ctx.tri("7-disk-bound", ev_fn, (once or rng or [ev_fn.node])[0], good and not once, bool(once),
            "evicts len(files) - max_size files", "at most one file is unlinked per call (no loop): a directory that is over the bound by more than one file stays over it",
            f"eviction count `{txt}` not recognised", key="disk-evict-count")


def rule_disk_truth(ctx: Ctx) -> None:
    """Whether the directory is over its bound is decided by looking at the DIRECTORY: on every path through _evict_if_needed
    on which a bound is set (`self.max_size is not None`), the files are listed.  A shortcut that answers from in-memory state
    (the LRU front, a counter) is wrong for a directory that already holds files (reopened cache, a second writer): the bound is
    exceeded and nothing is evicted."""
    from ..flow import exit_avoiding

    ev_fn = ctx.prog.func(f"{MOD}.DiskCache._evict_if_needed")
    cfg = ctx.cfg(ev_fn)
    LIST = ("glob", "iterdir", "listdir", "scandir", "rglob", "walk")

    def lists_dir(fn_: FuncInfo, depth: int = 2) -> bool:
        if any(isinstance(c, ast.Call) and isinstance(c.func, (ast.Attribute, ast.Name)) and dotted(c.func).rsplit(".", 1)[-1] in LIST for c in ast.walk(fn_.node)):
            return True
        return depth > 0 and any(lists_dir(c, depth - 1) for s_ in ctx.cg.sites.get(fn_.qualname, []) for c in s_.callees if c.qualname != fn_.qualname and c.module.name == MOD)

    listing = set()
    for n_ in cfg.nodes():
        for part in header_parts(cfg.stmt[n_]):
            for c in ast.walk(part):
                if isinstance(c, ast.Call) and ((isinstance(c.func, ast.Attribute) and c.func.attr in LIST) or any(lists_dir(t) for t in ctx.cg.resolve_callable(ev_fn, c.func))):
                    listing.add(n_)
    if not listing:
        ctx.add("7-disk-bound", ev_fn, ev_fn.node, None, "UNDECIDED: no statement of _evict_if_needed lists the cache directory", key="disk-truth")
        return
    w = exit_avoiding(cfg, Defs(ev_fn), listing, {"self.max_size is not None": True, "self.max_size is None": False})
    rets = [cfg.stmt[x] for x in (w or []) if isinstance(cfg.stmt.get(x), (ast.Return, ast.If))]
    ctx.add("7-disk-bound", ev_fn, rets[-1] if rets else ev_fn.node, w is None, "with a bound set, every path through _evict_if_needed lists the directory" if w is None else
            f"with a bound set, _evict_if_needed can return without looking at the directory ({'; '.join(cfg.describe(w, ev_fn.module.relpath))[:200]}): it answers from in-memory state, which knows nothing of files that were "
            "already there (reopened directory, second writer) - the directory grows past max_size and the oldest file is not evicted", key="disk-truth")


def rule_negative_slice(ctx: Ctx) -> None:
    """A surplus computed as a difference is used as a COUNT (range(n): empty when n <= 0), never as a slice bound
    (`files[: n]` with n < 0 selects all but the last |n|): below capacity that would delete entries that nothing displaced."""
    n = 0
    for cname in ("DiskCache", "LRUCache", "HybridCache", "SimpleCache"):
        for fn in ctx.prog.cls(f"{MOD}.{cname}").methods.values():
            d = Defs(fn)
            cfg = None
            for sub in [x for x in ast.walk(fn.node) if isinstance(x, ast.Subscript) and isinstance(x.slice, ast.Slice)]:
                for bound in (sub.slice.lower, sub.slice.upper):
                    b = d.resolve(bound) if bound is not None else None
                    if not (isinstance(b, ast.BinOp) and isinstance(b.op, ast.Sub) and "max_size" in norm(b)):
                        continue
                    n += 1
                    cfg = cfg or ctx.cfg(fn)
                    node = cfg.node_containing(sub)
                    from ..flow import guard_facts

                    facts = guard_facts(cfg, d, node) if node is not None else []
                    lhs, rhs = norm(b.left), norm(b.right)
                    guarded = any((f"{lhs} > {rhs}" in t or f"{lhs} >= {rhs}" in t) and pol or ((f"{lhs} <= {rhs}" in t or f"{lhs} < {rhs}" in t) and not pol) for t, pol in facts) or "max(" in norm(bound)
                    ctx.add("7-disk-bound", fn, sub, guarded, f"`{norm(sub)[:50]}`: the difference is known to be non-negative here" if guarded else
                            f"`{norm(sub)[:60]}` slices with the difference `{norm(b)}`, which is NEGATIVE while the cache is below capacity: the slice then selects (and the loop destroys) all but the last {rhs} - {lhs} entries", key=f"negative-slice {cname}.{fn.name}")
    ctx.add("7-disk-bound", MOD, "", True, f"{n} slice bound(s) computed from max_size examined", key="negative-slice-scan")


def _value_flows(cfg, at: int, e: ast.AST, param: str, _depth: int = 0) -> bool:
    """The expression `e`, evaluated at CFG node `at`, is computed from `param`: it names it, or names a local every reaching
    definition of which is computed from it (the arms of a conditional; a dead initialisation does not reach)."""
    from ..flow import reaching_values

    if any(isinstance(x, ast.Name) and x.id == param for x in ast.walk(e)):
        return True
    if _depth >= 5:
        return False
    for nm in sorted({x.id for x in ast.walk(e) if isinstance(x, ast.Name) and isinstance(x.ctx, ast.Load)}):
        rv = reaching_values(cfg, nm, at)
        if rv and all(_value_flows(cfg, n_, v_, param, _depth + 1) for n_, v_ in rv):
            return True
    return False


def rule_stores(ctx: Ctx) -> None:
    """put() stores the value it was given on every normal path (a re-put must overwrite)."""
    for cname in ("LRUCache", "HybridCache", "SimpleCache"):
        fn = ctx.prog.cls(f"{MOD}.{cname}").methods["put"]
        params = [p for p in fn.param_names() if p != "self"]
        key, value = params[0], params[1]
        cfg = ctx.cfg(fn)
        d = Defs(fn)
        stores = set(cfg.nodes(lambda s: isinstance(s, ast.Assign) and any(isinstance(t, ast.Subscript) and _self_attr(t.value) == "_cache_dict" and norm(t.slice) == key for t in s.targets)))
        paired_value: dict[int, ast.AST] = {}
        if not stores:
            # `for table, cell in ((self._cache_dict, stored), (self._access_counts, 1), ...): table[key] = cell`
            for lp in [x for x in walk_no_nested(fn.node) if isinstance(x, ast.For) and isinstance(x.iter, (ast.Tuple, ast.List)) and isinstance(x.target, ast.Tuple) and len(x.target.elts) == 2
                       and all(isinstance(e, ast.Name) for e in x.target.elts) and all(isinstance(e, ast.Tuple) and len(e.elts) == 2 for e in x.iter.elts)]:
                tname, cname_ = lp.target.elts[0].id, lp.target.elts[1].id
                cells = [e.elts[1] for e in lp.iter.elts if _self_attr(e.elts[0]) == "_cache_dict"]
                if not cells:
                    continue
                for st in lp.body:
                    if isinstance(st, ast.Assign) and any(isinstance(t, ast.Subscript) and isinstance(t.value, ast.Name) and t.value.id == tname and norm(t.slice) == key for t in st.targets) and norm(st.value) == cname_:
                        nd_ = cfg.node(lp)  # the loop as a whole stores (its iterable is a non-empty literal)
                        stores.add(nd_)
                        paired_value[nd_] = cells[0]
        if not stores:
            # positively nothing: no subscript store into the table, no store keyed by the key into anything that could alias it, no
            # update()/setdefault()/__setitem__ call
            anywhere = [n for _f, n in Scope(ctx, fn).walk() if (isinstance(n, (ast.Assign, ast.AugAssign, ast.AnnAssign)) and any(isinstance(t, ast.Subscript) and (_self_attr(t.value) == "_cache_dict" or not _self_attr(t.value))
                                                                                                                       for t in (n.targets if isinstance(n, ast.Assign) else [n.target])))
                        or (isinstance(n, ast.Call) and isinstance(n.func, ast.Attribute) and n.func.attr in ("update", "setdefault", "__setitem__"))]
            ctx.tri("8-stores", fn, fn.node, False, not anywhere, "", f"{cname}.put never stores into self._cache_dict", "the store happens in a helper; path coverage not decided", key=f"{cname}.put stores")
            continue
        ok = cfg.must_pass(ENTRY, EXIT, stores, normal_only=True)
        wp = None if ok else cfg.witness_path(ENTRY, EXIT, stores)
        ctx.add("8-stores", fn, fn.node, ok, "every normal path of put() stores under the key" if ok else
                f"a path through {cname}.put returns without storing the value: `key in cache` holds but get() returns an older value", key=f"{cname}.put stores", path=cfg.describe(wp, fn.module.relpath) if wp else None)
        flows = all(_value_flows(cfg, n, paired_value[n] if n in paired_value else cfg.stmt[n].value, value) for n in stores)
        ctx.tri("8-stores", fn, cfg.stmt[sorted(stores)[0]], flows, False, f"the stored object is derived from `{value}`", "", f"the stored expression does not mention `{value}` after following local definitions", key=f"{cname}.put value")
    dp = ctx.prog.func(f"{MOD}.DiskCache.put")
    params = [p for p in dp.param_names() if p != "self"]
    key, value = params[0], params[1]
    cfg = ctx.cfg(dp)
    cls = ctx.prog.cls(f"{MOD}.DiskCache")

    from ..effects import FS_WRITE

    def writes(s: ast.AST) -> bool:
        """The statement writes a file itself (a `.dump(...)` / write-mode open) or calls a method that does (effect analysis)."""
        for part in header_parts(s):
            for c in ast.walk(part):
                if not isinstance(c, ast.Call):
                    continue
                if isinstance(c.func, ast.Attribute) and c.func.attr in ("dump", "write", "write_bytes"):
                    return True
                if isinstance(c.func, ast.Name) and any(isinstance(x, ast.Attribute) and x.attr in ("dump", "write", "write_bytes") for x in ast.walk(Defs(dp).resolve(c.func))):
                    return True  # `dumper = cloudpickle.dump if ... else pickle.dump; dumper(value, f)`
                for site in ctx.cg.sites.get(dp.qualname, []):
                    if site.node is c and any(ctx.effects.has(callee.qualname, FS_WRITE) for callee in site.callees):
                        return True
        return False

    w = set(cfg.nodes(writes))
    ok = bool(w) and cfg.must_pass(ENTRY, EXIT, w, normal_only=True)
    wp = None if ok else cfg.witness_path(ENTRY, EXIT, w)
    ctx.add("8-stores", dp, dp.node, ok, "DiskCache.put pickles the value to its file on every path" if ok else "DiskCache.put can return without writing the value", key="DiskCache.put stores",
            path=cfg.describe(wp, dp.module.relpath) if wp else None)
    d = Defs(dp)
    # the front cache by whatever local name: `memory = self.lru_cache if self.with_lru_cache else None; memory.put(...)`
    # the directory is brought back under its bound AFTER the file was written: only then does the listing say whether this put
    # added a file at all (a re-put of a resident key adds none - evicting beforehand, on the assumption that it will, loses an entry)
    ev_nodes = cfg.nodes(lambda s_: any(isinstance(c, ast.Call) and norm(c.func) == "self._evict_if_needed" for part in header_parts(s_) for c in ast.walk(part)))
    if ev_nodes and w:
        early = [e_ for e_ in ev_nodes if not cfg.must_pass(ENTRY, e_, w, normal_only=True)]
        ctx.add("7-disk-bound", dp, cfg.stmt[early[0]] if early else cfg.stmt[ev_nodes[0]], not early, "DiskCache.put evicts after the file was written" if not early else
                "DiskCache.put evicts BEFORE it writes the file: the eviction has to guess whether the put adds a file - re-putting a resident key into a full directory evicts the oldest entry although nothing was added", key="disk-evict-after-write")
    lp = [c for c in ast.walk(dp.node) if isinstance(c, ast.Call) and isinstance(c.func, ast.Attribute) and c.func.attr == "put" and "self.lru_cache" in norm(d.resolve(c.func.value))]
    same = bool(lp) and [norm(d.resolve(a)) for a in lp[0].args] == [key, value]
    ctx.tri("8-stores", dp, lp[0] if lp else dp.node, same, not lp, "the in-memory LRU of a DiskCache is updated with the same value",
            "DiskCache.put never refreshes its in-memory LRU: get() keeps returning the previous value", "arguments of self.lru_cache.put not recognised", key="DiskCache.put lru")


def rule_disk_levels(ctx: Ctx) -> None:
    """The two-level DiskCache answers `in` from the same levels (in-memory LRU, then the file) that `get` reads from."""
    disk = ctx.prog.cls(f"{MOD}.DiskCache")
    levels = {}
    for m in ("get", "__contains__"):
        t = Scope(ctx, disk.methods[m]).text()
        levels[m] = {lv for lv, pat in (("lru", "self.lru_cache"), ("file", "_get_file_path(")) if pat in t}
    g, c = levels["get"], levels["__contains__"]
    ctx.tri("9-levels", disk.methods["__contains__"], disk.methods["__contains__"].node, g == c and bool(g), bool(g) and bool(c) and g != c,
            f"`in` and get() consult the same levels {sorted(g)}", f"get() answers from {sorted(g)} but `in` only looks at {sorted(c)}: a key can be reported absent while get() returns its value (or the reverse)", key="contains-vs-get")
    # the directory is the truth, the LRU in front of it only a shortcut for HITS: a miss in the LRU must go on to the file.  A
    # return whose value is the LRU membership itself makes "not in the LRU" final - entries written by another handle / process, or
    # pushed out of the LRU, are not found (cached functions re-execute)
    ct = disk.methods["__contains__"]
    final_from_lru = [r for r in walk_no_nested(ct.node) if isinstance(r, ast.Return) and r.value is not None and "lru_cache" in norm(r.value) and "_get_file_path" not in norm(r.value) and ".exists()" not in norm(r.value)
                      and not (isinstance(r.value, ast.Constant))]
    ctx.add("9-levels", ct, final_from_lru[0] if final_from_lru else ct.node, not final_from_lru, "a miss in the in-memory level falls through to the file" if not final_from_lru else
            f"`{norm(final_from_lru[0])[:60]}` answers `in` from the in-memory LRU alone: a key whose file exists but that is not (or no longer) in the LRU - written by another DiskCache object on the directory, or evicted from the LRU - "
            "is reported absent, so pipeline / map recompute results that are stored", key="contains-falls-through")
    # concurrent handles: a file that clear() listed may be gone when it is unlinked (a peer evicted or cleared it) - the unlink has to
    # tolerate that
    TOLERANT = ("Exception", "BaseException", "OSError", "FileNotFoundError", "IOError", "EnvironmentError")
    for m in ("clear", "_evict_if_needed"):
        fn = dict.get(disk.methods, m)
        if fn is None:
            continue
        par_ = {id(c_): p_ for p_ in ast.walk(fn.node) for c_ in ast.iter_child_nodes(p_)}
        for u in [c for c in ast.walk(fn.node) if isinstance(c, ast.Call) and isinstance(c.func, ast.Attribute) and c.func.attr == "unlink"]:
            if any(k.arg == "missing_ok" and isinstance(k.value, ast.Constant) and k.value.value is True for k in u.keywords):
                continue
            covered, narrow = False, None
            x: ast.AST = u
            while id(x) in par_:
                x = par_[id(x)]
                if isinstance(x, ast.With):
                    for i in x.items:
                        if isinstance(i.context_expr, ast.Call) and dotted(i.context_expr.func).rsplit(".", 1)[-1] == "suppress":
                            names = [dotted(a).rsplit(".", 1)[-1] for a in i.context_expr.args]
                            if any(n_ in TOLERANT for n_ in names):
                                covered = True
                            else:
                                narrow = names
                if isinstance(x, ast.Try):
                    for h in x.handlers:
                        names = [dotted(t).rsplit(".", 1)[-1] for t in ([h.type] if h.type is not None and not isinstance(h.type, ast.Tuple) else (h.type.elts if h.type is not None else []))]
                        if h.type is None or any(n_ in TOLERANT for n_ in names):
                            covered = True
                        else:
                            narrow = names
            if m == "clear":
                ctx.tri("9-levels", fn, u, covered, narrow is not None and not covered, "clear() tolerates a file that vanished between the listing and the unlink",
                        f"`{norm(u)}` in clear() only tolerates {narrow}: when another handle on the directory evicts or clears a listed file first, clear() raises FileNotFoundError half-way (the remaining files and the LRU stay)",
                        "whether clear() tolerates a vanished file was not recognised", key="clear-tolerates-vanished")


    # a READ leaves the directory alone: it neither rewrites the entry (which makes it the newest file and a later eviction
    # delete a different one) nor evicts
    from ..effects import FS_DELETE, FS_WRITE

    for m in ("get", "__contains__", "__len__"):
        fn = disk.methods[m]
        bad = []
        for site in ctx.cg.sites.get(fn.qualname, []):
            for callee in site.callees:
                if callee.cls is not None and callee.cls.qualname == disk.qualname and (ctx.effects.has(callee.qualname, FS_WRITE) or ctx.effects.has(callee.qualname, FS_DELETE)):
                    bad.append((site.node, callee))
        ctx.add("9-levels", fn, bad[0][0] if bad else fn.node, not bad, f"DiskCache.{m} does not write or delete cache files" if not bad else
                f"DiskCache.{m} calls `{norm(bad[0][0])[:50]}`, which writes / deletes cache files: a read rewrites the entry (it is no longer the oldest file) and runs the eviction - "
                "the next overflowing put deletes a different file than the one the policy names", key=f"read-only {m}")


ITERATING = {"list", "tuple", "set", "frozenset", "sorted", "min", "max", "sum", "iter", "enumerate", "zip", "map", "filter", "any", "all", "reversed"}


def rule_containers_bound_once(ctx: Ctx) -> None:
    """The shared containers (and the lock) are created in the constructor and never replaced: other handles of a shared
    cache - pickled copies in worker processes - keep referring to the objects created there, so a method that REBINDS
    `self._cache_dict` (e.g. clear() building fresh containers / a fresh manager) empties only its own handle."""
    n = 0
    for cname, fields in SHARED.items():
        cls = ctx.prog.cls(f"{MOD}.{cname}")
        for mname, fn in cls.methods.items():
            if mname in ("__init__", "__setstate__"):
                continue
            for a in [a for a in ast.walk(fn.node) if isinstance(a, (ast.Assign, ast.AnnAssign, ast.AugAssign))]:
                for t in (a.targets if isinstance(a, ast.Assign) else [a.target]):
                    if _self_attr(t) in [*fields, LOCK]:
                        n += 1
                        ctx.add("1-lock", fn, a, False, f"`{norm(a)[:60]}` rebinds `self.{_self_attr(t)}` outside the constructor: other handles of the (shared) cache keep the old object, so they neither see this change nor share later ones", key=f"rebinds {cname}.{mname}.{_self_attr(t)}")
        ctx.add("1-lock", cls.qualname, cls.loc, True, f"{cname}: containers and lock are bound in the constructor only ({n} rebinding(s) elsewhere)", key=f"bound-once {cname}")


def rule_proxy_iteration(ctx: Ctx) -> None:
    """A `manager.dict()` proxy is never iterated directly.

    DictProxy forwards `__iter__` as a method that returns an *Iterator proxy*, which has to be created through the
    proxy's `_manager`.  A proxy that reached another process by pickling has `_manager = None`, so `for k in proxy`
    raises AttributeError there, while keys()/items()/values()/len()/in/[] (plain copies / values) work everywhere.
    With shared=True the caches exist to be used from several processes, so every operation must stay on that subset.
    (ListProxy has no `__iter__` entry: iteration falls back to `__getitem__` and is fine.)"""
    n = 0
    for cname in SHARED:
        cls = ctx.prog.cls(f"{MOD}.{cname}")
        init = cls.methods["__init__"]
        managers = {t.id for a in ast.walk(init.node) if isinstance(a, ast.Assign) and isinstance(a.value, ast.Call) and dotted(a.value.func).rsplit(".", 1)[-1] == "Manager" for t in a.targets if isinstance(t, ast.Name)}
        proxies = {_self_attr(t) for a in ast.walk(init.node) if isinstance(a, ast.Assign) and isinstance(a.value, ast.Call) and isinstance(a.value.func, ast.Attribute) and a.value.func.attr == "dict"
                   and isinstance(a.value.func.value, ast.Name) and a.value.func.value.id in managers for t in a.targets if _self_attr(t)}
        if not proxies:
            ctx.add("10-proxy-iteration", init, init.node, None, f"UNDECIDED: no `manager.dict()` field found in {cname}.__init__", key=f"proxies {cname}")
            continue
        for mname, fn in cls.methods.items():
            aliases = {t.id: _self_attr(a.value) for a in walk_no_nested(fn.node) if isinstance(a, ast.Assign) and _self_attr(a.value) in proxies for t in a.targets if isinstance(t, ast.Name)}

            def proxy_of(e: ast.AST, aliases=aliases) -> str | None:
                if _self_attr(e) in proxies:
                    return _self_attr(e)
                return aliases.get(e.id) if isinstance(e, ast.Name) else None

            par = _parents(fn.node)
            for x in ast.walk(fn.node):
                its: list[ast.AST] = []
                if isinstance(x, (ast.For, ast.AsyncFor, ast.comprehension)):
                    its = [x.iter]
                elif isinstance(x, ast.Call) and dotted(x.func) in ITERATING:
                    its = list(x.args)
                elif isinstance(x, ast.Starred):
                    its = [x.value]
                for it in its:
                    f_ = proxy_of(it)
                    if f_ is None:
                        continue
                    n += 1
                    local_only = _under_not_shared(x if not isinstance(x, ast.comprehension) else par.get(id(x), x), par)
                    ctx.add("10-proxy-iteration", fn, it, local_only, f"self.{f_} is iterated only under `not self.shared`" if local_only else
                            f"`{norm(it)}` (a multiprocessing manager dict proxy when shared=True) is iterated directly: in a process that received the cache by pickling this raises AttributeError ('NoneType' object has no attribute '_registry'); iterate over .keys() / .items() or a local copy instead",
                            key=f"iterates {cname}.{mname} {f_}")
        ctx.add("10-proxy-iteration", cls.qualname, cls.loc, True, f"{cname}: manager dict proxies {sorted(proxies)}: scanned {len(cls.methods)} methods for direct iteration", key=f"scan {cname}")
    ctx.note(f"10-proxy-iteration: {n} direct iteration(s) over a manager dict proxy found")


def check(ctx: Ctx) -> None:
    for rule in (rule_disk_levels, rule_stores, rule_lock, rule_invariant, rule_policy, rule_retire, rule_division, rule_pickle_guard, rule_codec_symmetric, rule_disk_bound, rule_disk_truth, rule_negative_slice, rule_containers_bound_once, rule_proxy_iteration):
        ctx.run(rule)


# ------------------------------------------------------------------------------ self-test corpus
F = "pipefunc/cache.py"
MUTANTS = [
    Mutant("min-over-score-key-tuples", F, "        lowest_score_key = min(scores, key=lambda k: scores[k])\n", "        _, lowest_score_key = min((scores[k], k) for k in self._cache_dict)\n", ("C14.3-policy",), why="round-6 seed C14/17 (expected count zero: positive example)"),
    Mutant("disk-get-reputs", F, "                self.lru_cache.put(key, value)\n", "                self.put(key, value)\n", ("C14.9-levels",), why="round-6 seed C14/18"),
    Mutant("expire-iterates-proxy-F35", F, "            for k in normalized_access_counts\n", "            for k in self._access_counts\n", ("C14.10-proxy-iteration",), why="original F35"),
    Mutant("str-iterates-proxy", F, '        access_counts_str = f"Access Counts: {self._access_counts}\\n"\n', '        access_counts_str = f"Access Counts: {sorted(self._access_counts)}\\n"\n', ("C14.10-proxy-iteration",)),
    Mutant("twin-expire-iterates-keys", F, "            for k in normalized_access_counts\n", "            for k in self._access_counts.keys()\n", twin=True),
    Mutant("disk-contains-file-only", F, "        if self.with_lru_cache and key in self.lru_cache:\n            return True\n        file_path = self._get_file_path(key)\n        return file_path.exists()\n", "        return self._get_file_path(key).exists()\n", ("C14.9-levels",), why="round-2 seed C14/6"),
    Mutant("lru-get-test-outside-lock", F,
           "        with self._cache_lock:\n            if key not in self._cache_dict:\n                return None\n            value = self._cache_dict[key]\n            # Move key",
           "        if key not in self._cache_dict:\n            return None\n        with self._cache_lock:\n            value = self._cache_dict[key]\n            # Move key",
           ("C14.1-lock",), why="original F21"),
    Mutant("hybrid-get-read-after-unlock", F,
           "            self._access_counts[key] += 1\n            value = self._cache_dict[key]\n",
           "            self._access_counts[key] += 1\n        value = self._cache_dict[key]\n", ("C14.1-lock",)),
    Mutant("lru-put-original-F20", F,
           "            if key in self._cache_dict:\n                # Key is already in the cache, only move it to the back of the queue\n                self._cache_queue.remove(key)\n            elif len(self._cache_queue) >= self.max_size:\n                key_to_evict = self._cache_queue.pop(0)\n                self._cache_dict.pop(key_to_evict)\n            self._cache_dict[key] = value\n            self._cache_queue.append(key)\n",
           "            self._cache_dict[key] = value\n            cache_size = len(self._cache_queue)\n            if cache_size < self.max_size:\n                self._cache_queue.append(key)\n            else:\n                key_to_evict = self._cache_queue.pop(0)\n                self._cache_dict.pop(key_to_evict)\n                self._cache_queue.append(key)\n",
           ("C14.2-invariant",), why="original F20"),
    Mutant("lru-put-no-eviction", F, "            elif len(self._cache_queue) >= self.max_size:\n", "            elif len(self._cache_queue) > self.max_size:\n", ("C14.2-invariant",)),
    Mutant("lru-put-forgets-dict-pop", F, "                self._cache_dict.pop(key_to_evict)\n", "                pass\n", ("C14.2-invariant",)),
    Mutant("lru-get-no-append", F, "            self._cache_queue.remove(key)\n            self._cache_queue.append(key)\n        if self._allow", "            self._cache_queue.remove(key)\n        if self._allow", ("C14.2-invariant", "C14.3-policy")),
    Mutant("lru-clear-forgets-queue", F, "            del self._cache_queue[:]\n", "            pass\n", ("C14.2-invariant",)),
    Mutant("hybrid-expire-two-of-three", F, "        del self._access_counts[lowest_score_key]\n", "", ("C14.2-invariant",)),
    Mutant("hybrid-put-no-expire", F, "            if len(self._cache_dict) >= self.max_size:\n                self._expire()\n", "", ("C14.2-invariant",)),
    Mutant("hybrid-clear-partial", F, "            self._computation_durations.clear()\n", "", ("C14.2-invariant",)),
    Mutant("lru-evict-back", F, "key_to_evict = self._cache_queue.pop(0)", "key_to_evict = self._cache_queue.pop()", ("C14.3-policy", "C14.2")),
    Mutant("hybrid-evict-max", F, "lowest_score_key = min(scores", "lowest_score_key = max(scores", ("C14.3-policy",)),
    Mutant("disk-evict-newest", F, "oldest_file = min(files", "oldest_file = max(files", ("C14.3-policy",)),
    Mutant("disk-original-F22", F, "                oldest_file.unlink()\n                files.remove(oldest_file)\n", "                oldest_file.unlink()\n", ("C14.4-retire",), why="original F22"),
    Mutant("hybrid-original-F23", F, "k: v / total_duration if total_duration else 0.0\n", "k: v / total_duration\n", ("C14.5-division",), why="original F23"),
    Mutant("getstate-always", F, "        if hasattr(self, \"shared\") and self.shared:\n            return self.__dict__\n", "        return self.__dict__\n", ("C14.6-pickle-guard",)),
    Mutant("disk-put-skips-evict", F, "            self.lru_cache.put(key, value)\n        self._evict_if_needed()\n", "            self.lru_cache.put(key, value)\n            return\n        self._evict_if_needed()\n", ("C14.7-disk-bound",)),
    Mutant("hybrid-get-no-count", F, "            self._access_counts[key] += 1\n", "", ("C14.3-policy",)),
    Mutant("lru-put-early-return", F, "                self._cache_queue.remove(key)\n            elif len(self._cache_queue) >= self.max_size:\n", "                self._cache_queue.remove(key)\n                self._cache_queue.append(key)\n                return\n            if len(self._cache_queue) >= self.max_size:\n", ("C14.8-stores",), why="seeded C14/1"),
    Mutant("disk-evict-at-most-one", F, "            for _ in range(len(files) - self.max_size):\n                oldest_file = min(files, key=lambda f: f.stat().st_ctime_ns)\n                oldest_file.unlink()\n                files.remove(oldest_file)\n",
           "            if len(files) > self.max_size:\n                oldest_file = min(files, key=lambda f: f.stat().st_ctime_ns)\n                oldest_file.unlink()\n", ("C14.7-disk-bound",), why="seeded C14/3"),
    # behaviour-preserving twins
    Mutant("lru-get-refresh-only-when-full", F, "            # Move key to back of queue\n            self._cache_queue.remove(key)\n            self._cache_queue.append(key)\n", "            if len(self._cache_queue) >= self.max_size:\n                self._cache_queue.remove(key)\n                self._cache_queue.append(key)\n", ("C14.3-policy",), why="round-8 seed C14/22"),
    Mutant("hybrid-ctor-copy-paste", F, "        self.duration_weight: float = duration_weight\n", "        self.duration_weight: float = access_weight\n", ("C14.3-policy",), why="round-8 seed C14/23"),
    Mutant("twin-lru-get-field-aliases", F, "        with self._cache_lock:\n            if key not in self._cache_dict:\n                return None\n            value = self._cache_dict[key]\n            # Move key to back of queue\n            self._cache_queue.remove(key)\n            self._cache_queue.append(key)\n",
           "        table, recency = self._cache_dict, self._cache_queue\n        with self._cache_lock:\n            if key not in table:\n                return None\n            value = table[key]\n            recency.remove(key)\n            recency.append(key)\n", twin=True, why="round-10 refactoring C14/26"),
    Mutant("twin-lru-put-local-name", F, "                key_to_evict = self._cache_queue.pop(0)\n                self._cache_dict.pop(key_to_evict)\n",
           "                victim = self._cache_queue.pop(0)\n                self._cache_dict.pop(victim)\n", twin=True),
    Mutant("twin-lru-put-del", F, "                self._cache_dict.pop(key_to_evict)\n", "                del self._cache_dict[key_to_evict]\n", twin=True),
    Mutant("twin-hybrid-put-order", F, "            self._access_counts[key] = 1\n            self._computation_durations[key] = duration\n",
           "            self._computation_durations[key] = duration\n            self._access_counts[key] = 1\n", twin=True),
    Mutant("twin-lru-get-early-miss", F, "            if key not in self._cache_dict:\n                return None\n            value = self._cache_dict[key]\n            # Move key",
           "            if key in self._cache_dict:\n                value = self._cache_dict[key]\n            else:\n                return None\n            # Move key", twin=True),
]
