"""Static analysis of pipefunc: nothing under /repo is imported or executed by this package."""
