"""E5 - rank-domain ("kind") inference for shapes, masks, keys and linear indices of the map kernel.

Every tuple that the kernel pairs position-wise lives in one *length domain*:
    EXT   one entry per mapped (external) axis        e.g. StorageBase.shape, dump keys, strides
    INT   one entry per internal axis                 e.g. StorageBase.internal_shape
    FULL  one entry per output axis, in output order  e.g. RunInfo.shapes[...], __getitem__ keys, the mask
Kinds (tuples): ("T", d) tuple over d | ("M", d) boolean mask over d | ("LIN", d) linear index into the space of
T(d) | ("N", d) its size | ("RANK", d) | ("SEQ", k) iterable of k | ("FLAT", d) flat array of size N(d) |
("ARR", d) nd-array of shape T(d) | ("FLATMASK", d) | ("RANGES", d) one range per position of T(d) |
("NAMES", d) | ("PAIR", k1, k2) | ("DICT", d) mapping keyed by T(d) | ("EL", d) one entry of a T(d) |
("COND", m, k_true, k_false) value selected by mask element m | ("CTR", d) position counter over d | None unknown.

Rule K: operands paired position-wise (zip, subscript by a position counter, a linear index applied to a shape,
an argument against its parameter) must have the same domain.  Only *known and different* domains are violations;
unknown kinds never are (they are counted as unresolved).
"""

from __future__ import annotations

import ast
from dataclasses import dataclass, field

from .loader import FuncInfo, Program, dotted, norm

Kind = tuple | None
EXT, INT, FULL = "EXT", "INT", "FULL"
T_EXT, T_INT, T_FULL, MASK = ("T", EXT), ("T", INT), ("T", FULL), ("M", FULL)
LIN_EXT, LIN_FULL = ("LIN", EXT), ("LIN", FULL)


def show(k: Kind) -> str:
    if k is None:
        return "?"
    if k[0] in ("SEQ",):
        return f"seq[{show(k[1])}]"
    if k[0] == "PAIR":
        return f"({show(k[1])}, {show(k[2])})"
    if k[0] == "COND":
        return f"({show(k[2])} if {k[1]} else {show(k[3])})"
    names = {"T": "tuple", "M": "mask", "LIN": "linear-index", "N": "size", "RANK": "rank", "FLAT": "flat-array", "ARR": "array", "FLATMASK": "flat-mask",
             "RANGES": "ranges", "NAMES": "names", "DICT": "dict-keyed-by", "EL": "entry-of", "CTR": "counter-over", "POS": "position-in-a-sequence-of", "LEN": "length-of-a-sequence-of"}
    return f"{names.get(k[0], k[0])}<{show(k[1]) if isinstance(k[1], tuple) else k[1]}>"


def dom(k: Kind) -> str | None:
    """Length domain of a position-wise pairable kind."""
    if k is None:
        return None
    if k[0] in ("T", "M", "RANGES", "NAMES"):
        return k[1]
    return None


ORDER_TAGS = {
    "INSERTION-ORDER": "with workers that store their own results (shared-memory dict), or a run completed in several parts, insertion order is completion order - the array is permuted whenever elements are not stored in index order",
    "LISTING-ORDER": "a directory listing has no defined order",
    "NAME-ORDER": "file names sort as text ('__10__' before '__2__'), so from the 11th element on the values land on the wrong indices",
}


def _elementwise(fn) -> bool:
    """Every return of `fn` is a comprehension / map over its single parameter (possibly through `<pool>.map(f, param)`)."""
    ps = [p for p in fn.param_names() if p != "self"]
    if len(ps) != 1:
        return False
    from .loader import walk_no_nested

    rets = [r.value for r in walk_no_nested(fn.node) if isinstance(r, ast.Return) and r.value is not None]

    def over_param(x: ast.AST) -> bool:
        if isinstance(x, ast.Name):
            return x.id == ps[0]
        if isinstance(x, ast.Call) and (dotted(x.func) in ("map", "list", "tuple", "iter") or (isinstance(x.func, ast.Attribute) and x.func.attr == "map")) and x.args:
            return over_param(x.args[-1])
        if isinstance(x, (ast.ListComp, ast.GeneratorExp)) and len(x.generators) == 1 and not x.generators[0].ifs:
            return over_param(x.generators[0].iter)
        return False

    return bool(rets) and all(over_param(r) for r in rets)


@dataclass
class Sig:
    params: dict[str, Kind]
    ret: Kind = None
    by_const: dict[str, dict[bool, dict[str, Kind]]] = field(default_factory=dict)  # param kinds that depend on a bool flag


# ---------------------------------------------------------------------------- seed tables (each line: where it was read from)
ATTR_KIND = {  # attribute of a storage object
    "shape": T_EXT,  # _init_arrays passes external_shape_from_mask(shape, mask) as 2nd ctor arg; size = prod(shape)
    "internal_shape": T_INT,  # _init_arrays 3rd ctor arg
    "shape_mask": MASK,  # ctor check len(shape_mask) == len(shape) + len(internal_shape)
    "full_shape": T_FULL,  # select_by_mask(mask, shape, internal_shape)
    "strides": T_EXT,  # shape_to_strides(self.shape)
    "size": ("N", EXT),  # prod(self.shape)
    "rank": ("RANK", EXT),
    "_dict": ("DICT", EXT),  # DictArray.dump stores under the normalised dump key
}
SIGS: dict[str, Sig] = {
    "pipefunc.map._shapes.external_shape_from_mask": Sig({"shape": T_FULL, "mask": MASK}, T_EXT),
    "pipefunc.map._shapes.internal_shape_from_mask": Sig({"shape": T_FULL, "mask": MASK}, T_INT),
    "pipefunc.map._storage_array._base.select_by_mask": Sig({"mask": MASK, "tuple1": T_EXT, "tuple2": T_INT}, T_FULL),
    "pipefunc.map._storage_array._base.iterate_shape_indices": Sig({"shape": ("T", "K")}, ("SEQ", ("T", "K"))),
    "pipefunc.map._mapspec.shape_to_strides": Sig({"shape": ("T", "K")}, ("T", "K")),
    "pipefunc.map._mapspec._shape_to_key": Sig({"shape": ("T", "K"), "linear_index": ("LIN", "K")}, ("T", "K")),
    "pipefunc.map._mapspec.MapSpec.output_key": Sig({"shape": T_EXT, "linear_index": LIN_EXT}, T_EXT),  # rank check against input_indices
    "pipefunc.map._mapspec.MapSpec.input_keys": Sig({"shape": T_EXT, "linear_index": LIN_EXT}, None),  # rank check against external_indices
    "pipefunc.map._storage_array._base.normalize_key": Sig({"shape": T_EXT, "internal_shape": T_INT, "shape_mask": MASK}, None,
                                                           by_const={"for_dump": {True: {"key": T_EXT, "@ret": T_EXT}, False: {"key": T_FULL, "@ret": T_FULL}}}),
    "pipefunc.map._run._select_kwargs": Sig({"shape": T_FULL, "shape_mask": MASK, "index": LIN_EXT}),
    "pipefunc.map._run._select_kwargs_and_eval_resources": Sig({"shape": T_FULL, "shape_mask": MASK, "index": LIN_EXT}),
    "pipefunc.map._run._init_result_arrays": Sig({"shape": T_FULL}, ("SEQ", ("FLAT", FULL))),
    "pipefunc.map._run._run_iteration_and_process": Sig({"index": LIN_EXT, "shape": T_FULL, "shape_mask": MASK}),
    "pipefunc.map._run._update_array": Sig({"shape": T_FULL, "shape_mask": MASK, "index": LIN_EXT}),
    "pipefunc.map._run._indices_to_flat_index": Sig({"shape": T_EXT, "internal_shape": T_INT, "shape_mask": MASK, "external_index": T_EXT, "internal_index": T_INT}, LIN_FULL),
    "pipefunc.map._run._set_output": Sig({"arr": ("FLAT", FULL), "linear_index": LIN_EXT, "shape": T_FULL, "shape_mask": MASK}),
    "pipefunc.map._run._update_result_array": Sig({"result_arrays": ("SEQ", ("FLAT", FULL)), "index": LIN_EXT, "shape": T_FULL, "mask": MASK}),
    "pipefunc.map._run._mask_fixed_axes": Sig({"shape": T_FULL, "shape_mask": MASK}, ("FLATMASK", EXT)),
    "pipefunc.map._run._existing_and_missing_indices": Sig({"fixed_mask": ("FLATMASK", EXT)}, ("PAIR", ("SEQ", LIN_EXT), ("SEQ", LIN_EXT))),
    "pipefunc.map._run._prepare_submit_map_spec": Sig({}),
    "pipefunc.map._run._output_from_mapspec_task": Sig({}),
    "pipefunc.map._run_info._init_arrays": Sig({"shape": T_FULL, "mask": MASK}),
    "pipefunc.map._run_info.RunInfo.init_store": Sig({}),
    "pipefunc.map.adaptive._sequence": Sig({"shape": T_FULL, "mask": MASK}, ("SEQ", LIN_EXT)),
    "pipefunc.map.adaptive._learner": Sig({}),
    "pipefunc.map.adaptive._split_sequence_learner": Sig({}),
    "pipefunc.map.adaptive._execute_iteration_in_map_spec": Sig({"index": LIN_EXT}),
}
OPTIONAL_SIGS = {  # helpers a refactor may inline or remove; the callers' obligations remain
    "pipefunc.map._run._indices_to_flat_index", "pipefunc.map._run._select_kwargs_and_eval_resources", "pipefunc.map._run._init_result_arrays",
    "pipefunc.map._run._prepare_submit_map_spec", "pipefunc.map._run._output_from_mapspec_task", "pipefunc.map.adaptive._learner", "pipefunc.map.adaptive._split_sequence_learner",
}
BASE_PROPERTIES = {"full_shape": T_FULL, "strides": T_EXT, "size": ("N", EXT)}  # StorageBase, analysed against their declared kinds
STORAGE_CTOR = {"shape": T_EXT, "internal_shape": T_INT, "shape_mask": MASK}  # StorageBase.__init__(folder, shape, internal_shape, shape_mask)
METHOD_SIGS: dict[str, Sig] = {  # StorageBase API, by method name (receiver: a storage object)
    "dump": Sig({"key": T_EXT}),  # normalize_key(for_dump=True): expected_rank = sum(shape_mask)
    "__getitem__": Sig({"key": T_FULL}),  # normalize_key: expected_rank = len(shape_mask)
    "get_from_index": Sig({"index": LIN_EXT}),  # range(self.size)
    "has_index": Sig({"index": LIN_EXT}),
    "_index_to_file": Sig({"index": LIN_EXT}),
    "_key_to_file": Sig({"key": T_EXT}),
    "mask_linear": Sig({}, ("FLATMASK", EXT)),
    "_normalize_key": Sig({}, None, by_const={"for_dump": {True: {"key": T_EXT, "@ret": T_EXT}, False: {"key": T_FULL, "@ret": T_FULL}}}),
    "_slice_indices": Sig({}, None, by_const={"for_dump": {True: {"key": T_EXT, "@ret": ("RANGES", EXT)}, False: {"key": T_FULL, "@ret": ("RANGES", FULL)}}}),
    "output_key": Sig({"shape": T_EXT, "linear_index": LIN_EXT}, T_EXT),
    "input_keys": Sig({"shape": T_EXT, "linear_index": LIN_EXT}, None),
}
STORAGE_METHOD_PARAMS = {  # per-class analyses of method bodies: parameter kinds
    "_key_to_file": {"key": T_EXT}, "_index_to_file": {"index": LIN_EXT}, "get_from_index": {"index": LIN_EXT}, "has_index": {"index": LIN_EXT},
    "__getitem__": {"key": T_FULL}, "dump": {"key": T_EXT}, "to_array": {}, "mask_linear": {}, "mask": {}, "_files": {}, "full_shape": {}, "strides": {}, "size": {},
    "_normalize_key": {}, "_slice_indices": {},
}
RUN_INFO_FIELDS = {"shapes": ("DICTV", T_FULL), "shape_masks": ("DICTV", MASK)}  # values per output
MAPSPECARGS_FIELDS = {"shape": T_FULL, "mask": MASK, "missing": ("SEQ", LIN_EXT), "existing": ("SEQ", LIN_EXT), "result_arrays": ("SEQ", ("FLAT", FULL))}


@dataclass
class Finding:
    fn: FuncInfo
    node: ast.AST
    ok: bool
    what: str
    variant: str = ""


class KindAnalysis:
    """Abstract interpretation of one function body over kinds."""

    def __init__(self, prog: Program, typer, fn: FuncInfo, params: dict[str, Kind], consts: dict[str, bool] | None = None, storage_self: bool = False, variant: str = "") -> None:
        self.prog, self.typer, self.fn = prog, typer, fn
        self.consts = consts or {}
        self.storage_self = storage_self
        self.variant = variant
        self.env: dict[str, Kind] = dict(params)
        self.findings: list[Finding] = []
        self.unresolved = 0
        self.returns: list[tuple[ast.AST, Kind]] = []
        self.allmask_true = False  # inside a branch where all(mask) holds (FULL == EXT)
        from .flow import Defs

        self._defs = Defs(fn)
        self.counters = self._find_counters()
        self.block(fn.node.body)

    # ------------------------------------------------------------------ counters
    def _find_counters(self) -> dict[str, tuple[str, bool]]:
        """name -> (mask element variable, polarity) for `c += 1` found under `if m:` / `else:`."""
        out: dict[str, tuple[str, bool]] = {}

        def visit(body: list[ast.stmt], guard: tuple[str, bool] | None) -> None:
            for st in body:
                if isinstance(st, ast.AugAssign) and isinstance(st.target, ast.Name) and isinstance(st.op, ast.Add) and guard is not None:
                    out.setdefault(st.target.id, guard)
                if isinstance(st, ast.If):
                    g = None
                    t = st.test
                    if isinstance(t, ast.Name):
                        g = (t.id, True)
                    elif isinstance(t, ast.UnaryOp) and isinstance(t.op, ast.Not) and isinstance(t.operand, ast.Name):
                        g = (t.operand.id, False)
                    visit(st.body, g if g else guard)
                    visit(st.orelse, (g[0], not g[1]) if g else guard)
                elif isinstance(st, (ast.For, ast.While, ast.With, ast.Try)):
                    for b in (getattr(st, "body", []), getattr(st, "orelse", []), getattr(st, "finalbody", [])):
                        visit(b, guard)

        visit(self.fn.node.body, None)
        return out

    # ------------------------------------------------------------------ helpers
    def report(self, node: ast.AST, ok: bool, what: str) -> None:
        self.findings.append(Finding(self.fn, node, ok, what, self.variant))

    def pair(self, node: ast.AST, a: Kind, b: Kind, what: str) -> None:
        da, db = dom(a), dom(b)
        if da is None or db is None:
            self.unresolved += 1
            return
        same = da == db or (self.allmask_true and {da, db} <= {EXT, FULL})
        self.report(node, same, f"{what}: {show(a)} with {show(b)}" + ("" if same else " - the two operands run over different axes; entries are paired with the wrong axis whenever an internal axis is not trailing or sizes differ"))

    def need(self, node: ast.AST, got: Kind, want: Kind, what: str) -> None:
        if got is None or want is None:
            self.unresolved += 1
            return
        if want[0] == "T" and want[1] == "K" or (len(want) > 1 and want[1] == "K"):
            return  # polymorphic, unified by the caller
        g, w = got, want
        if g[0] == "COND":
            self.need(node, g[2], want, what)
            self.need(node, g[3], want, what)
            return
        ok = g == w or (g[0] == w[0] and len(g) > 1 and g[1] == w[1]) or (self.allmask_true and g[0] == w[0] and {g[1], w[1]} <= {EXT, FULL}) \
            or (g[0] in ("T", "NAMES", "RANGES") and w[0] in ("T",) and g[1] == w[1])
        self.report(node, ok, f"{what}: expected {show(w)}, got {show(g)}" + ("" if ok else " - wrong index space"))

    # ------------------------------------------------------------------ expressions
    def k(self, e: ast.AST) -> Kind:  # noqa: C901, PLR0911, PLR0912, PLR0915
        if isinstance(e, ast.Name):
            if e.id in self.counters and e.id not in self.env:
                m, pol = self.counters[e.id]
                mk = self.env.get(m)
                if mk and mk[0] == "ELM":
                    md = mk[1]
                    d = (EXT if pol else INT) if md == FULL else (md if pol else None)
                    return ("CTR", d) if d else None
                return None
            return self.env.get(e.id)
        if isinstance(e, ast.Attribute):
            base = e.value
            bname = norm(base)
            if e.attr in ATTR_KIND and (self._is_storage(base)):
                return ATTR_KIND[e.attr]
            if e.attr in MAPSPECARGS_FIELDS and bname == "args":
                return MAPSPECARGS_FIELDS[e.attr]
            if e.attr == "flat":
                b = self.k(base)
                if b and b[0] in ("ARR", "MASKARR"):
                    return ("FLATMASK", b[1])
            if e.attr == "mask" and self._is_storage(base):
                return ("MASKARR", EXT)  # StorageBase.mask: one entry per element of the external shape
            if e.attr == "data":
                b = self.k(base)
                if b and b[0] == "MASKARR":
                    return ("ARR", b[1])
            if e.attr == "sequence" and isinstance(base, ast.Name) and any(p_.arg == base.id and p_.annotation is not None and "SequenceLearner" in norm(p_.annotation) for p_ in self.fn.params):
                return ("SEQ", LIN_EXT)  # a learner made by _learner runs over _sequence(...): linear indices of the external space
            if e.attr in ("external_indices",):
                return ("NAMES", EXT)
            if e.attr in ("output_indices",):
                return ("NAMES", FULL)
            return None
        if isinstance(e, ast.Subscript):
            b = self.k(e.value)
            bn = norm(e.value)
            if bn.endswith((".shapes", ".shape_masks")) and ("run_info" in bn or bn.startswith("self.")):
                return T_FULL if bn.endswith(".shapes") else MASK
            if b is None:
                return None
            if b[0] == "SEQ":
                return b[1]
            if b[0] in ("T", "M", "RANGES", "NAMES"):
                i = self.k(e.slice)
                if i is not None and i[0] == "CTR":
                    self.need(e, ("T", i[1]), ("T", b[1]), f"`{norm(e)}` indexes by a position counter")
                if i is not None and i[0] == "COND" and b[0] == "COND":
                    pass
                return ("EL", b[1])
            if b[0] == "COND":
                i = self.k(e.slice)
                if i is not None and i[0] == "COND" and i[1] == b[1]:
                    for bb, ii in ((b[2], i[2]), (b[3], i[3])):
                        if bb and ii and ii[0] == "CTR" and dom(bb):
                            self.need(e, ("T", ii[1]), ("T", dom(bb)), f"`{norm(e)}` indexes by a position counter")
                return None
            if b[0] == "FLAT":
                i = self.k(e.slice)
                if isinstance(e.slice, ast.Slice) and e.slice.lower is None and e.slice.upper is None:
                    return b  # whole array
                if isinstance(e.slice, ast.Slice):
                    self.report(e, False, f"`{norm(e)}`: a contiguous slice of the flat result array assumes the internal axes are the trailing ones")
                elif i is not None:
                    self.need(e, i, ("LIN", b[1]), f"`{norm(e)}` indexes the flat result array")
                return None
            if b[0] in ("ARR", "MASKARR"):
                if isinstance(e.slice, ast.Slice) and e.slice.lower is None and e.slice.upper is None and e.slice.step is None:
                    # `a[:]` needs at least one axis: the external shape is () for a function without a mapped axis (`x[:] -> y[j]`)
                    self.report(e, b[1] != EXT, f"`{norm(e)}` slices the first axis of an array over {show(('T', b[1]))}" + ("" if b[1] != EXT else
                                " - the external shape is () when no axis is mapped (`x[:] -> y[j]`): a 0-d array cannot be sliced (IndexError), the backend refuses a map the other backends run"))
                    return b
                i = self.k(e.slice)
                if i is not None and i[0] == "T" and isinstance(i[1], str) and i[1].endswith("+...") and i[1][:-4] == b[1]:
                    return None  # a complete index followed by `...`
                if i is not None and dom(i):
                    self.need(e, i, ("T", b[1]), f"`{norm(e)}` indexes an array of that shape" + (" (leading positions, then `...`: that assumes these axes come FIRST)" if str(i[1]).endswith("+...") else ""))
                return None
            if b[0] == "DICT":
                i = self.k(e.slice)
                if i is not None:
                    self.need(e, i, ("T", b[1]), f"`{norm(e)}` looks up the element dict")
                return None
            return None
        if isinstance(e, ast.IfExp):
            t = e.test
            if isinstance(t, ast.Name) and t.id in self.consts:
                return self.k(e.body if self.consts[t.id] else e.orelse)
            if isinstance(t, ast.Name) and (self.env.get(t.id) or (None,))[0] == "ELM":
                return ("COND", t.id, self.k(e.body), self.k(e.orelse))
            a, b = self.k(e.body), self.k(e.orelse)
            return a if a == b else None
        if isinstance(e, ast.UnaryOp) and isinstance(e.op, ast.Invert):
            inner = self.k(e.operand)
            return inner if inner and inner[0] in ("FLATMASK", "MASKARR") else None
        if isinstance(e, ast.Tuple):
            # (*a, *b): concatenation - ordered "all of a, then all of b", which is NOT the interleaved FULL order
            if e.elts and all(isinstance(x, ast.Starred) for x in e.elts):
                ks = [self.k(x.value) for x in e.elts]  # type: ignore[union-attr]
                if all(k_ is not None and k_[0] == "T" for k_ in ks):
                    return ("T", "+".join(k_[1] for k_ in ks)) if len(ks) > 1 else ks[0]  # type: ignore[index]
            # (*a, ...): the positions of `a` FIRST, every remaining axis whole - only an index for an array whose leading axes are a's
            if len(e.elts) >= 2 and isinstance(e.elts[-1], ast.Constant) and e.elts[-1].value is Ellipsis and all(isinstance(x, ast.Starred) for x in e.elts[:-1]):
                ks = [self.k(x.value) for x in e.elts[:-1]]  # type: ignore[union-attr]
                if all(k_ is not None and k_[0] == "T" for k_ in ks):
                    return ("T", "+".join(k_[1] for k_ in ks) + "+...")  # type: ignore[index]
            return None
        if isinstance(e, ast.BinOp):
            if isinstance(e.op, ast.Mult):
                # (True,) * n  /  (slice(None),) * len(x)
                l, r = e.left, e.right
                if isinstance(l, ast.Tuple) and len(l.elts) == 1:
                    n = self.k(r)
                    if n is not None and n[0] == "RANK":
                        if isinstance(l.elts[0], ast.Constant) and l.elts[0].value is True:
                            return ("M", n[1])
                        return ("T", n[1])
                lk, rk = self.k(l), self.k(r)
                if lk and rk and lk[0] == "LIN" and rk[0] == "N":
                    return ("LINxN", lk[1], rk[1])
            if isinstance(e.op, ast.Add):
                lk, rk = self.k(e.left), self.k(e.right)
                if lk and rk and lk[0] == "T" and rk[0] == "T":
                    return ("T", f"{lk[1]}+{rk[1]}")  # concatenation, see ast.Tuple above
            return None
        if isinstance(e, ast.List) and len(e.elts) == 1 and not isinstance(e.elts[0], ast.Starred):
            inner = self.k(e.elts[0])
            return ("SEQ", inner) if inner is not None else None
        if isinstance(e, (ast.GeneratorExp, ast.ListComp)):
            return self._comp(e)
        if isinstance(e, ast.Call):
            return self._call(e)
        return None

    def _is_subseq(self, e: ast.AST) -> bool:
        """`e` is (derived from) np.flatnonzero(...): the increasing sequence of the SELECTED linear indices, not all of them."""
        if isinstance(e, ast.Name):
            return e.id in getattr(self, "subseq", set())
        if isinstance(e, ast.Call):
            nm = dotted(e.func)
            if nm in ("np.flatnonzero", "numpy.flatnonzero", "np.nonzero", "np.where") and len(e.args) == 1:
                return True
            if nm in ("list", "tuple", "sorted", "iter", "np.asarray", "np.array") and e.args:
                return self._is_subseq(e.args[0])
            if isinstance(e.func, ast.Attribute) and e.func.attr in ("tolist", "copy", "astype") :
                return self._is_subseq(e.func.value)
        if isinstance(e, ast.IfExp):
            return self._is_subseq(e.body) or self._is_subseq(e.orelse)
        if isinstance(e, ast.Subscript) and isinstance(e.slice, ast.Constant) and e.slice.value == 0:
            return self._is_subseq(e.value)  # np.nonzero(m)[0]
        return False

    def _is_storage(self, base: ast.AST) -> bool:
        if isinstance(base, ast.Name) and base.id == "self":
            return self.storage_self
        ty = self.typer.expr(self.fn, base)
        return any("_storage_array" in c for c in ty.classes())

    def _comp(self, e: ast.GeneratorExp | ast.ListComp) -> Kind:
        g = e.generators[0]
        saved = dict(self.env)
        it0 = self.k(g.iter)
        if len(e.generators) == 1 and it0 and it0[0] == "SEQ" and it0[1] and it0[1][0] == "VAL" and it0[1][1] in ORDER_TAGS:
            return it0  # mapping / filtering keeps the order of the elements
        self._bind_iter(g.target, g.iter, e)
        out: Kind = None
        # tuple(x for x, m in zip(X, M) if m)  -> filter by mask polarity
        if isinstance(g.iter, ast.Call) and dotted(g.iter.func) == "zip" and len(g.iter.args) == 2 and len(g.ifs) == 1 and isinstance(g.target, ast.Tuple):
            xk, mk = self.k(g.iter.args[0]), self.k(g.iter.args[1])
            t = g.ifs[0]
            pol = None
            mname = norm(g.target.elts[1])
            if norm(t) == mname:
                pol = True
            elif norm(t) == f"not {mname}":
                pol = False
            if pol is not None and mk and mk[0] == "M" and mk[1] == FULL and norm(e.elt) == norm(g.target.elts[0]):
                if xk and dom(xk) == FULL:
                    out = ("T", EXT if pol else INT)
        elif not g.ifs:
            ek = self.k(e.elt)
            it = self.k(g.iter)
            if isinstance(g.iter, ast.Attribute) and g.iter.attr == "output_indices":
                out = ("T", FULL)  # one entry per output index name
            elif it and it[0] in ("T", "M", "NAMES", "RANGES") and ek is not None and ek[0] in ("EL", "ELM"):
                out = ("T", it[1])
            elif ek is not None and (it is None or it[0] == "SEQ"):
                out = ("SEQ", ek)
        self.env = saved
        return out

    def _call(self, c: ast.Call) -> Kind:  # noqa: C901, PLR0911, PLR0912
        name = dotted(c.func)
        short = name.rsplit(".", 1)[-1] if name else (c.func.attr if isinstance(c.func, ast.Attribute) else "")
        args = c.args
        if name == "tuple" and args:
            inner = self.k(args[0])
            if inner and inner[0] in ("T", "M"):
                return inner
            if inner and inner[0] == "SEQ":
                return None
            return inner
        if name in ("os.listdir", "os.scandir") or (isinstance(c.func, ast.Attribute) and c.func.attr in ("iterdir", "glob", "rglob") and not isinstance(c.func.value, ast.Constant)):
            return ("SEQ", ("VAL", "LISTING-ORDER"))  # directory entries: arbitrary order
        if name == "sorted" and args:
            a0 = self.k(args[0])
            if a0 and a0[0] == "SEQ" and a0[1] and a0[1][0] == "VAL" and a0[1][1] == "LISTING-ORDER":
                # file names sort as TEXT ('__10__' < '__2__'): name order is not index order
                return ("SEQ", ("VAL", "NAME-ORDER")) if not c.keywords else None
            return a0
        if name == "list" and args:
            return self.k(args[0])
        if name == "len" and args:
            a = self.k(args[0])
            if a and a[0] == "SEQ" and a[1] is not None:
                return ("LEN", a[1])  # how many elements a sequence has (not a size of the index space)
            return ("RANK", dom(a)) if dom(a) else None
        if name == "sum" and args:
            a = self.k(args[0])
            return ("RANK", EXT) if a == MASK else (("RANK", a[1]) if a and a[0] == "M" else None)
        if name == "prod" and args:
            a = self.k(args[0])
            return ("N", a[1]) if a and a[0] == "T" else None
        if name == "range" and len(args) == 1:
            a = self.k(args[0])
            if a and a[0] == "N":
                return ("SEQ", ("LIN", a[1]))
            if a and a[0] == "RANK":
                return ("SEQ", ("CTR", a[1]))
            if a and a[0] == "LEN":
                return ("SEQ", ("POS", a[1]))  # positions 0..n-1 IN a sequence of such elements - not the elements
            return None
        if name == "enumerate" and args:
            return self.k(args[0])
        if name == "zip":
            ks = [self.k(a) for a in args if not isinstance(a, ast.Starred)]
            sel = [a for a in args if not isinstance(a, ast.Starred) and self._is_subseq(a)]
            full = [a for a in args if a not in sel and ((isinstance(a, ast.Starred) and ((self.k(a.value) or (None, None))[0] == "SEQ" and ((self.k(a.value) or (None, (None,)))[1] or (None,))[0] == "FLATMASK"))
                                                      or (not isinstance(a, ast.Starred) and (self.k(a) or (None,))[0] in ("FLATMASK", "FLAT")))]
            if sel and full:
                self.report(c, False, f"`{norm(c)[:60]}` pairs the k-th SELECTED index (`{norm(sel[0])[:30]}`, a subset of the linear indices) with the k-th element of `{norm(full[0])[:30]}`, which runs over ALL linear indices: "
                            "element k of the selection is classified by the mask value of element k - once earlier parts of the index space are stored, a part's own missing elements count as existing")
            tagged = [k_ for k_ in ks if k_ and k_[0] in ("SEQ", "FLAT") and (k_[1] if k_[0] == "FLAT" else (k_[1] or (None, None))[1] if k_[1] and k_[1][0] == "VAL" else None) in ORDER_TAGS]
            indexed = [k_ for k_ in ks if k_ and k_[0] == "SEQ" and k_[1] and k_[1][0] in ("LIN", "T", "POS")]
            if tagged and indexed:
                tag = tagged[0][1] if tagged[0][0] == "FLAT" else tagged[0][1][1]
                self.report(c, False, f"`{norm(c)[:60]}` pairs the k-th index with the k-th value in {tag}: " + ORDER_TAGS[tag])
            doms = [k_ for k_ in ks if dom(k_)]
            for other in doms[1:]:
                self.pair(c, doms[0], other, f"`{norm(c)[:60]}` pairs position-wise")
            if any(isinstance(a, ast.Starred) for a in args):
                # zip(*masks, fixed_mask): flat masks over the same linear space
                fl = [self.k(a.value if isinstance(a, ast.Starred) else a) for a in args]
                fl = [(x[1] if x and x[0] == "SEQ" else x) for x in fl]
                fm = [x for x in fl if x and x[0] == "FLATMASK"]
                for other in fm[1:]:
                    ok = other[1] == fm[0][1]
                    self.report(c, ok, f"`{norm(c)[:60]}` zips flat masks over {show(fm[0])} and {show(other)}")
                return ("ZIPFLAT", fm[0][1]) if fm else None
            return ("ZIP", tuple(ks))
        if name in ("itertools.product", "product") and args and isinstance(args[0], ast.Starred):
            a = self.k(args[0].value)
            if a and a[0] == "RANGES":
                return ("SEQ", ("T", a[1]))
            if a and a[0] == "SEQ" and a[1] and a[1][0] == "RANGEOF":
                return ("SEQ", ("T", a[1][1]))
            return None
        if name in ("np.unravel_index",) and len(args) >= 2:
            i, s = self.k(args[0]), self.k(args[1])
            if s and s[0] == "T":
                if i is not None:
                    self.need(c, i, ("LIN", s[1]), f"`{norm(c)[:60]}` decomposes a linear index")
                bad_order = any(k_.arg == "order" and not (isinstance(k_.value, ast.Constant) and k_.value.value == "C") for k_ in c.keywords)
                if bad_order:
                    self.report(c, False, f"`{norm(c)[:60]}` is not row-major (order=)")
                return ("T", s[1])
            return None
        if name in ("np.ravel_multi_index",) and len(args) >= 2:
            i, s = self.k(args[0]), self.k(args[1])
            if i is not None and s is not None:
                self.pair(c, i, s, f"`{norm(c)[:60]}` flattens a multi-index against a shape")
            bad_order = any(k_.arg == "order" and not (isinstance(k_.value, ast.Constant) and k_.value.value == "C") for k_ in c.keywords)
            if bad_order:
                self.report(c, False, f"`{norm(c)[:60]}` is not row-major (order=)")
            return ("LIN", s[1]) if s and s[0] == "T" else None
        if name in ("np.zeros", "np.empty", "np.full", "np.ones", "_masked_empty") and args:
            s = self.k(args[0])
            if s and s[0] == "T":
                return ("ARR", s[1])
            if s and s[0] == "N":
                return ("FLAT", s[1])
            return None
        if name in ("np.fromiter", "np.array", "np.asarray", "list", "tuple") and args:
            a0 = self.k(args[0])
            if a0 and a0[0] == "SEQ" and a0[1] and a0[1][0] == "VAL":
                return ("FLAT", a0[1][1])
            if a0 and a0[0] == "FLATMASK" and name in ("np.array", "np.asarray"):
                return a0
        if name == "np.flatnonzero" and args:
            a = self.k(args[0])
            return ("SEQ", ("LIN", a[1])) if a and a[0] == "FLATMASK" else None
        if (name == "map" or (isinstance(c.func, ast.Attribute) and c.func.attr == "map")) and len(args) == 2:
            it_ = self.k(args[1])
            if it_ and it_[0] == "SEQ" and it_[1] and it_[1][0] == "VAL":
                return it_  # element-wise: the order is kept
        if len(args) == 1 and not c.keywords and name and "." not in name:
            # a repo function that maps its one argument element by element keeps the order of the elements
            a0 = self.k(args[0])
            if a0 and a0[0] == "SEQ" and a0[1] and a0[1][0] == "VAL":
                q_ = self.prog.resolve_name(self.fn.module, name, self.fn)
                callee = self.prog.functions.get(q_) if q_ else None
                if callee is not None and _elementwise(callee):
                    return a0
        if name == "map" and len(args) == 2:
            f_, it = args[0], self.k(args[1])
            if isinstance(f_, ast.Attribute) and f_.attr in METHOD_SIGS and it and it[0] == "SEQ":
                sig = METHOD_SIGS[f_.attr]
                want = next(iter(sig.params.values()), None)
                self.need(c, it[1], want, f"`{norm(c)[:60]}` applies {f_.attr} to each element")
            return None
        if isinstance(c.func, ast.Attribute) and c.func.attr == "reshape" and args:
            b, s = self.k(c.func.value), self.k(args[0])
            if b and b[0] == "FLAT" and b[1] in ORDER_TAGS:
                self.report(c, False, f"`{norm(c)[:60]}` lays values out in {b[1]}: element k of the flat array is the k-th value in that order, not the element with linear index k - " + ORDER_TAGS[b[1]])
                return None
            if b and s and b[0] == "FLAT" and s[0] == "T":
                self.need(c, s, ("T", b[1]), f"`{norm(c)[:60]}` reshapes the flat array")
            return None
        if isinstance(c.func, ast.Attribute) and c.func.attr in ("get", "items", "values", "keys"):
            b = self.k(c.func.value)
            if b and b[0] == "DICT" and c.func.attr == "values":
                return ("SEQ", ("VAL", "INSERTION-ORDER"))  # the stored elements in the order they were inserted (= completed)
            if b and b[0] == "DICT" and c.func.attr == "items":
                return ("SEQ", ("ITEM", b[1]))
            if b and b[0] == "DICT" and c.func.attr in ("keys",):
                return ("SEQ", ("T", b[1]))
            return None
        if isinstance(c.func, ast.Attribute) and c.func.attr == "_slice_indices" and len(args) == 2 and not c.keywords:
            # DictArray._slice_indices(key, shape): one range per position, key and shape over the same domain
            kk, sk = self.k(args[0]), self.k(args[1])
            if kk is not None and sk is not None:
                self.pair(c, kk, sk, f"`{norm(c)[:60]}` slices a key against a shape")
            d_ = dom(sk) or dom(kk)
            return ("RANGES", d_) if d_ else None
        if short == "SequenceLearner" and len(args) >= 2:
            self.need(args[1], self.k(args[1]), ("SEQ", LIN_EXT), "the sequence of a SequenceLearner (each element is handed to _execute_iteration_in_map_spec as the linear index)")
            return None
        if name == "_MapSpecArgs":
            # the record that carries kinds from submission to post-processing: check the seed table against its construction
            cls_q = self.prog.resolve_name(self.fn.module, name, self.fn)
            ci = self.prog.classes.get(cls_q)
            if ci is not None:
                for fname, a in zip(list(ci.fields), args):
                    if isinstance(a, ast.Starred):
                        self.unresolved += 1  # `*pair` spreads over an unknown number of fields: the positions after it are not known
                        break
                    if fname in MAPSPECARGS_FIELDS:
                        self.need(a, self.k(a), MAPSPECARGS_FIELDS[fname], f"_MapSpecArgs field `{fname}`")
            return None
        # storage constructor: storage_class(path, external_shape, internal_shape, mask)
        if name in ("storage_class",) or (name and name.endswith(("FileArray", "DictArray", "SharedMemoryDictArray"))):
            names = ["folder", "shape", "internal_shape", "shape_mask"]
            for i, a in enumerate(args):
                if i < len(names) and names[i] in STORAGE_CTOR:
                    self.need(a, self.k(a), STORAGE_CTOR[names[i]], f"storage constructor argument `{names[i]}`")
            for kw in c.keywords:
                if kw.arg in STORAGE_CTOR:
                    self.need(kw.value, self.k(kw.value), STORAGE_CTOR[kw.arg], f"storage constructor argument `{kw.arg}`")
            return None
        # seeded functions
        q = self.prog.resolve_name(self.fn.module, name, self.fn) if name else ""
        sig = SIGS.get(q)
        pnames: list[str] = []
        if sig is not None and q in self.prog.functions:
            pnames = [p for p in self.prog.functions[q].param_names() if p not in ("self", "cls")]
        elif isinstance(c.func, ast.Attribute) and c.func.attr in METHOD_SIGS and (self._is_storage(c.func.value) or c.func.attr in ("output_key", "input_keys") or norm(c.func.value) == "self"):
            sig = METHOD_SIGS[c.func.attr]
            pnames = list(sig.params) or ["key"]
        if sig is None:
            # an unseeded private helper of the same class / module: analyse its body with the kinds of the arguments
            helper = None
            if isinstance(c.func, ast.Attribute) and norm(c.func.value) == "self" and self.fn.cls is not None:
                helper = dict.get(self.fn.cls.methods, c.func.attr)
            elif q in self.prog.functions and self.prog.functions[q].module is self.fn.module and q.rsplit(".", 1)[-1].startswith("_"):
                helper = self.prog.functions[q]
            depth = getattr(self, "_depth", 0)
            if helper is not None and helper is not self.fn and depth < 2 and not helper.is_property:
                hp = [p_ for p_ in helper.param_names() if p_ not in ("self", "cls")]
                bound = {pn: self.k(a) for pn, a in list(zip(hp, args)) + [(kw.arg, kw.value) for kw in c.keywords if kw.arg]}
                bound = {k_: v for k_, v in bound.items() if v is not None}
                if bound or self.storage_self:
                    sub = KindAnalysis.__new__(KindAnalysis)
                    sub._depth = depth + 1
                    KindAnalysis.__init__(sub, self.prog, self.typer, helper, bound, self.consts, storage_self=self.storage_self and helper.cls is not None, variant=self.variant)
                    self.findings += sub.findings
                    self.unresolved += sub.unresolved
                    kinds_ = {r_ for _n, r_ in sub.returns if r_ is not None}
                    if len(kinds_) == 1 and all(r_ is not None for _n, r_ in sub.returns):
                        return next(iter(kinds_))
                return None
            # partial(f, kw=...) over a seeded function
            if name in ("functools.partial", "partial") and args:
                tq = self.prog.resolve_name(self.fn.module, dotted(args[0]), self.fn)
                tsig = SIGS.get(tq)
                if tsig:
                    for kw in c.keywords:
                        if kw.arg in tsig.params:
                            self.need(kw.value, self.k(kw.value), tsig.params[kw.arg], f"partial({tq.rsplit('.', 1)[-1]}, {kw.arg}=...)")
            return None
        const = {kw.arg: kw.value.value for kw in c.keywords if kw.arg in sig.by_const and isinstance(kw.value, ast.Constant)}
        for flag in sig.by_const:
            if flag not in const:
                fwd = next((kw.value for kw in c.keywords if kw.arg == flag), None)
                if isinstance(fwd, ast.Name) and fwd.id in self.consts:
                    const[flag] = self.consts[fwd.id]
                elif fwd is None:
                    const[flag] = False
        params = dict(sig.params)
        ret = sig.ret
        for flag, table in sig.by_const.items():
            if flag in const:
                params.update({k_: v for k_, v in table[bool(const[flag])].items() if k_ != "@ret"})
                ret = table[bool(const[flag])].get("@ret", ret)
        bindK: dict[str, str] = {}
        given = list(zip(pnames, args)) + [(kw.arg, kw.value) for kw in c.keywords if kw.arg]
        if pnames == ["key"] and args:
            given = [("key", args[0])]
        for pn, a in given:
            want = params.get(pn)
            if want is None:
                continue
            got = self.k(a)
            if len(want) > 1 and want[1] == "K":
                if got is not None and len(got) > 1 and got[0] == want[0]:
                    if "K" in bindK and bindK["K"] != got[1]:
                        self.report(a, False, f"argument `{pn}` of {short}: {show(got)} but the other argument is over {bindK['K']} - a linear index of one space applied to the shape of another")
                    else:
                        bindK.setdefault("K", got[1])
                        if "K" in bindK:
                            self.report(a, True, f"argument `{pn}` of {short}: {show(got)}")
                elif got is not None:
                    self.report(a, False, f"argument `{pn}` of {short}: expected {want[0]}<...>, got {show(got)}")
                else:
                    self.unresolved += 1
                continue
            self.need(a, got, want, f"argument `{pn}` of {short}")
        if ret is not None and len(ret) > 1:
            if ret[1] == "K":
                return (ret[0], bindK["K"]) if "K" in bindK else None
            if ret[0] == "SEQ" and ret[1] and len(ret[1]) > 1 and ret[1][1] == "K":
                return ("SEQ", (ret[1][0], bindK["K"])) if "K" in bindK else None
        return ret

    # ------------------------------------------------------------------ statements
    def _bind_iter(self, target: ast.AST, it: ast.AST, node: ast.AST) -> None:
        k = self.k(it)
        if isinstance(it, ast.Call) and dotted(it.func) == "enumerate" and isinstance(target, ast.Tuple) and len(target.elts) == 2:
            inner = it.args[0]
            ik = self.k(inner)
            if isinstance(target.elts[0], ast.Name):
                if ik and ik[0] == "ZIPFLAT":
                    self.env[target.elts[0].id] = ("LIN", ik[1])
                elif ik and ik[0] == "SEQ" and ik[1] and ik[1][0] == "FLATMASK":
                    self.env[target.elts[0].id] = ("LIN", ik[1][1])
            self._bind_iter(target.elts[1], inner, node)
            return
        if k is None:
            return
        if k[0] == "ZIP" and isinstance(target, ast.Tuple):
            for t, kk in zip(target.elts, k[1]):
                self._bind_elem(t, kk)
            return
        if k[0] == "SEQ":
            if k[1] and k[1][0] == "ITEM" and isinstance(target, ast.Tuple) and isinstance(target.elts[0], ast.Name):
                self.env[target.elts[0].id] = ("T", k[1][1])
            elif isinstance(target, ast.Name):
                self.env[target.id] = k[1]
            return
        self._bind_elem(target, k)

    def _bind_elem(self, t: ast.AST, k: Kind) -> None:
        if not isinstance(t, ast.Name) or k is None:
            return
        if k[0] == "M":
            self.env[t.id] = ("ELM", k[1])
        elif k[0] in ("T", "RANGES", "NAMES"):
            self.env[t.id] = ("EL", k[1])
        elif k[0] == "SEQ":
            self.env[t.id] = k[1]
        elif k[0] == "DICT":
            self.env[t.id] = ("T", k[1])

    def _allmask_test(self, t: ast.AST) -> bool | None:
        """True / False if the test is (equivalent to) `all(<mask>)` / `not all(<mask>)`, following local definitions."""
        import re as _re

        from .flow import cond

        text, pol = cond(self._defs.resolve(t))
        m = _re.fullmatch(r"all\((\w+)\)", text)
        if m and (self.env.get(m.group(1)) == MASK or m.group(1) in ("mask", "shape_mask")):
            return pol
        return None

    def block(self, body: list[ast.stmt]) -> None:
        prev = self.allmask_true
        for st in body:
            self.stmt(st)
            # `if [not] all(mask): ...; continue/return/raise` - the rest of the block runs under the negated test
            if isinstance(st, ast.If) and not st.orelse and st.body and isinstance(st.body[-1], (ast.Continue, ast.Return, ast.Raise, ast.Break)):
                am = self._allmask_test(st.test)
                if am is False:
                    self.allmask_true = True
        self.allmask_true = prev

    def stmt(self, st: ast.stmt) -> None:  # noqa: C901, PLR0912
        if isinstance(st, (ast.FunctionDef, ast.AsyncFunctionDef, ast.ClassDef)):
            return
        if isinstance(st, ast.Assign):
            self._scan(st.value)
            k = self.k(st.value)
            for t in st.targets:
                if isinstance(t, ast.Name):
                    if t.id in self.counters and isinstance(st.value, ast.Constant):
                        continue
                    self.env[t.id] = k
                    if not hasattr(self, "subseq"):
                        self.subseq = set()
                    (self.subseq.add if self._is_subseq(st.value) else self.subseq.discard)(t.id)
                elif isinstance(t, ast.Tuple) and k and k[0] == "PAIR":
                    for el, kk in zip(t.elts, k[1:]):
                        if isinstance(el, ast.Name):
                            self.env[el.id] = kk
                elif isinstance(t, ast.Tuple) and isinstance(st.value, ast.Tuple):
                    for el, v in zip(t.elts, st.value.elts):
                        if isinstance(el, ast.Name) and not (el.id in self.counters and isinstance(v, ast.Constant)):
                            self.env[el.id] = self.k(v)
                elif isinstance(t, ast.Subscript):
                    whole = (isinstance(t.slice, ast.Slice) and t.slice.lower is None and t.slice.upper is None and t.slice.step is None) or (isinstance(t.slice, ast.Constant) and t.slice.value is Ellipsis)
                    tag = (k[1] if k[0] == "FLAT" else k[1][1] if k[0] == "SEQ" and k[1] and k[1][0] == "VAL" else None) if k else None
                    if whole and isinstance(t.value, ast.Name) and tag in ORDER_TAGS:
                        self.env[t.value.id] = ("FLAT", tag)  # `a[:] = values`: a now holds them in that order
                        continue
                    self.k(t)  # checks the index
            return
        if isinstance(st, ast.AnnAssign) and isinstance(st.target, ast.Name) and st.value is not None:
            self.env[st.target.id] = self.k(st.value)
            return
        if isinstance(st, ast.AugAssign):
            self.k(st.value)
            return
        if isinstance(st, (ast.For, ast.AsyncFor)):
            self._scan(st.iter)
            self._bind_iter(st.target, st.iter, st)
            self.block(st.body)
            self.block(st.orelse)
            return
        if isinstance(st, ast.While):
            self.block(st.body)
            return
        if isinstance(st, ast.If):
            t = st.test
            tn = norm(t)
            const = None
            if isinstance(t, ast.Name) and t.id in self.consts:
                const = self.consts[t.id]
            elif isinstance(t, ast.UnaryOp) and isinstance(t.op, ast.Not) and isinstance(t.operand, ast.Name) and t.operand.id in self.consts:
                const = not self.consts[t.operand.id]
            if const is True:
                self.block(st.body)
                return
            if const is False:
                self.block(st.orelse)
                return
            self._scan(t)
            saved = dict(self.env)
            prev = self.allmask_true
            am = self._allmask_test(t)
            if am is True:
                self.allmask_true = True
            self.block(st.body)
            self.allmask_true = prev
            env_t = self.env
            self.env = dict(saved)
            if am is False:
                self.allmask_true = True
            self.block(st.orelse)
            self.allmask_true = prev
            merged = {}
            for key in set(env_t) | set(self.env):
                a, b = env_t.get(key), self.env.get(key)
                merged[key] = a if a == b else (a if b is None else (b if a is None else None))
            self.env = merged
            return
        if isinstance(st, (ast.With, ast.AsyncWith)):
            self.block(st.body)
            return
        if isinstance(st, ast.Try):
            self.block(st.body)
            for h in st.handlers:
                self.block(h.body)
            self.block(st.orelse)
            self.block(st.finalbody)
            return
        if isinstance(st, ast.Return):
            if st.value is not None:
                self._scan(st.value)
                self.returns.append((st, self.k(st.value)))
            return
        if isinstance(st, ast.Expr):
            self._scan(st.value)
            return
        if isinstance(st, ast.Assert):
            self._scan(st.test)

    def _scan(self, e: ast.AST) -> None:
        """Evaluate every call / subscript inside `e` for its checks (duplicates are merged by the reporter)."""
        if isinstance(e, (ast.Call, ast.Subscript, ast.GeneratorExp, ast.ListComp, ast.IfExp)):
            self.k(e)
        if isinstance(e, (ast.GeneratorExp, ast.ListComp, ast.SetComp, ast.DictComp, ast.Lambda)):
            return  # evaluated as a whole (its own scope)
        for c in ast.iter_child_nodes(e):
            self._scan(c)
