"""Self-test: apply single-instance mutants of /repo's *current* source in memory and re-run the rules.

A mutant is a text edit scoped to one file (optionally one function).  It is applied to the source
as it is on this run, compiled (it must still be valid Python) and analysed through an overlay
Program - nothing is written to disk and nothing is executed.  A mutant is *killed* when a rule in
its `expect` set newly fails; a *twin* (behaviour-preserving edit) must not produce any new failure.
Mutants whose anchor text is no longer present exactly once are reported as *stale*, never as a miss.
The self-test never changes a check's exit code; it is evidence about the checker itself
(`python -m sa.selftest` exits non-zero on a miss and is what the author runs).
"""

from __future__ import annotations

import importlib
import sys
from concurrent.futures import ProcessPoolExecutor
from dataclasses import dataclass

from .loader import AnalysisError, Program
from .report import Ctx


@dataclass
class Mutant:
    name: str
    file: str
    old: str
    new: str
    expect: tuple[str, ...] = ()
    twin: bool = False
    why: str = ""


def _failing(prop: str, prog: Program, tier: str) -> set[tuple[str, str, str]] | str:
    mod = importlib.import_module(f"sa.rules.{prop.lower()}")
    ctx = Ctx(prog, prop, tier)
    try:
        mod.check(ctx)
    except AnalysisError as e:
        return f"ANALYSIS-ERROR {e}"
    except Exception as e:  # noqa: BLE001  (check.py turns these into exit 2 as well)
        return f"ANALYSIS-ERROR internal {type(e).__name__}: {e}"
    return {o.ident() for o in ctx.obs if o.ok is False}


def _run_one(args: tuple[str, int, str]) -> dict:
    prop, idx, root = args
    mod = importlib.import_module(f"sa.rules.{prop.lower()}")
    m: Mutant = mod.MUTANTS[idx]
    base_prog = Program(root)
    path = base_prog.root / m.file
    src = path.read_text()
    if src.count(m.old) != 1:
        return {"name": m.name, "status": "stale", "twin": m.twin, "detail": f"anchor occurs {src.count(m.old)}x in {m.file}"}
    new_src = src.replace(m.old, m.new)
    try:
        compile(new_src, m.file, "exec")
    except SyntaxError as e:
        return {"name": m.name, "status": "broken-mutant", "twin": m.twin, "detail": str(e)}
    base = _failing(prop, base_prog, "quick")
    mut = _failing(prop, Program(root, overlay={m.file: new_src}), "quick")
    if isinstance(base, str):
        return {"name": m.name, "status": "stale", "twin": m.twin, "detail": base}
    if isinstance(mut, str):
        # the rule lost its construct: this is a detection too (fail-closed), flagged separately
        return {"name": m.name, "status": "killed-by-analysis-error" if not m.twin else "twin-alarm", "twin": m.twin, "detail": mut}
    new = sorted(mut - base)
    if m.twin:
        return {"name": m.name, "status": "silent" if not new else "twin-alarm", "twin": True, "detail": "; ".join(f"{r} @ {i}" for r, i, _ in new)}
    hit = [n for n in new if any(n[0].startswith(e) for e in m.expect)] if m.expect else new
    return {
        "name": m.name,
        "status": "killed" if hit else ("killed-other-rule" if new else "MISSED"),
        "twin": False,
        "detail": "; ".join(f"{r} @ {i}" for r, i, _ in (hit or new))[:400],
    }


_BASE_CACHE: dict = {}


def _run_patch(args: tuple[str, str, str]) -> dict:
    """Replay one committed patch (seeded change or refactoring) in memory and report what this check says about it."""
    from pathlib import Path

    from .patches import PatchError, apply_diff

    prop, patch_path, root = args
    name = Path(patch_path).parent.name
    try:
        overlay = apply_diff(Path(root), Path(patch_path).read_text())
    except (PatchError, OSError) as e:
        return {"name": name, "status": "does-not-apply", "detail": str(e)[:200]}
    if (prop, root) not in _BASE_CACHE:  # the unpatched tree is analysed once per worker process
        _BASE_CACHE[(prop, root)] = _failing(prop, Program(root), "quick")
    base = _BASE_CACHE[(prop, root)]
    mut = _failing(prop, Program(root, overlay=overlay), "quick")
    if isinstance(base, str) or isinstance(mut, str):
        return {"name": name, "status": "analysis-error", "detail": str(mut if isinstance(mut, str) else base)[:200]}
    new = sorted(mut - base)
    return {"name": name, "status": "alarm" if new else "silent", "detail": "; ".join(f"{r} @ {i}" for r, i, _ in new)[:300]}


def run_corpus(prop: str, root: str | None = None, jobs: int = 16) -> dict:
    """Replay the committed corpora: every refactoring must leave this check silent; seeded changes written for this
    property are expected to be reported (by this check or, as recorded in seeded/RESULTS.md, by a sibling check)."""
    from pathlib import Path

    verif = Path(__file__).resolve().parent.parent
    root = root or str(Program().root)
    refs = sorted(str(p) for p in (verif / "refactors").glob("*/patch.diff"))
    seeds = sorted(str(p) for p in (verif / "seeded").glob(f"{prop}-*/patch.diff"))
    with ProcessPoolExecutor(max_workers=jobs) as ex:
        r_ref = list(ex.map(_run_patch, [(prop, p, root) for p in refs]))
        r_seed = list(ex.map(_run_patch, [(prop, p, root) for p in seeds]))
    return {
        "refactorings": len(r_ref),
        "refactorings_silent": sum(r["status"] == "silent" for r in r_ref),
        "refactoring_alarms": [r for r in r_ref if r["status"] not in ("silent", "does-not-apply")],
        # written for a commit whose context a later repair changed: tools/harness.py evaluates these on the tree of that commit
        "refactorings_for_an_earlier_tree": [r["name"] for r in r_ref if r["status"] == "does-not-apply"],
        "seeded_for_this_property": len(r_seed),
        "seeded_reported_by_this_check": [r["name"] for r in r_seed if r["status"] == "alarm"],
        "seeded_not_reported_by_this_check": [r["name"] for r in r_seed if r["status"] not in ("alarm", "does-not-apply")],
        "seeded_for_an_earlier_tree": [r["name"] for r in r_seed if r["status"] == "does-not-apply"],
    }


def run(prop: str, root: str | None = None, jobs: int = 16) -> dict:
    mod = importlib.import_module(f"sa.rules.{prop.lower()}")
    muts = getattr(mod, "MUTANTS", [])
    root = root or str(Program().root)
    if not muts:
        return {"mutants": 0, "results": []}
    with ProcessPoolExecutor(max_workers=min(jobs, len(muts))) as ex:
        results = list(ex.map(_run_one, [(prop, i, root) for i in range(len(muts))]))
    summary = {
        "mutants": sum(not r["twin"] for r in results),
        "killed": sum(r["status"] in ("killed", "killed-by-analysis-error") for r in results),
        "killed_other_rule": sum(r["status"] == "killed-other-rule" for r in results),
        "missed": [r["name"] for r in results if r["status"] == "MISSED"],
        "twins": sum(r["twin"] for r in results),
        "twins_silent": sum(r["status"] == "silent" for r in results),
        "twin_alarms": [r["name"] for r in results if r["status"] == "twin-alarm"],
        "stale": [r["name"] for r in results if r["status"] in ("stale", "broken-mutant")],
        "results": results,
    }
    summary["corpus"] = run_corpus(prop, root, jobs)
    return summary


def main(argv: list[str]) -> int:
    from .check import PROPS

    props = argv or PROPS
    bad = 0
    for p in props:
        s = run(p)
        print(f"{p}: {s.get('killed', 0)}/{s['mutants']} killed, other-rule={s.get('killed_other_rule', 0)}, "
              f"missed={s.get('missed', [])}, twins silent {s.get('twins_silent', 0)}/{s.get('twins', 0)}, "
              f"twin alarms={s.get('twin_alarms', [])}, stale={s.get('stale', [])}")
        c = s.get("corpus", {})
        print(f"    corpus: refactorings silent {c.get('refactorings_silent')}/{c.get('refactorings')}, alarms={[r['name'] for r in c.get('refactoring_alarms', [])]}; "
              f"seeded for {p}: reported here {c.get('seeded_reported_by_this_check')}, elsewhere/not {c.get('seeded_not_reported_by_this_check')}")
        if c.get("refactoring_alarms"):
            bad += 1
        for r in s["results"]:
            if r["status"] not in ("killed", "silent"):
                print(f"    {r['status']:>24} {r['name']}: {r['detail']}")
        bad += len(s.get("missed", [])) + len(s.get("twin_alarms", [])) + len(s.get("stale", []))
    return 1 if bad else 0


if __name__ == "__main__":
    sys.exit(main(sys.argv[1:]))
