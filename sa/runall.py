"""Run every check in one process over one tree (development / harness use; the registered commands use sa.check).

``python -m sa.runall [PROP ...]`` prints, per property, a header ``== C01 rc=0`` followed by the FAILED / UNDECIDED /
ANALYSIS-ERROR / KNOWN-FINDING lines.  The tree is $PIPEFUNC_REPO (default /repo).  Nothing is written.
"""

from __future__ import annotations

import contextlib
import importlib
import io
import sys
import time
import traceback

from .check import PROPS
from .loader import AnalysisError, Program
from .report import Ctx, finish


def run(props: list[str], prog: Program | None = None) -> dict[str, tuple[int, list[str]]]:
    prog = prog or Program()
    shared: dict[str, object] = {}
    out: dict[str, tuple[int, list[str]]] = {}
    for prop in props:
        buf = io.StringIO()
        t0 = time.time()
        try:
            mod = importlib.import_module(f"sa.rules.{prop.lower()}")
            ctx = Ctx(prog, prop, "quick")
            ctx._typer, ctx._cg, ctx._effects = shared.get("typer"), shared.get("cg"), shared.get("effects")
            with contextlib.redirect_stdout(buf):
                mod.check(ctx)
                rc = finish(ctx, t0=t0, explanation="", trusted=[], declined=[], write=False)
            shared["typer"], shared["cg"], shared["effects"] = ctx._typer or shared.get("typer"), ctx._cg or shared.get("cg"), ctx._effects or shared.get("effects")
        except AnalysisError as e:
            rc = 2
            buf.write(f"ANALYSIS-ERROR property={prop} {e}\n")
        except Exception:  # noqa: BLE001
            rc = 2
            buf.write(f"ANALYSIS-ERROR property={prop} internal error: {traceback.format_exc().splitlines()[-1]} @ {traceback.format_exc().splitlines()[-3].strip()}\n")
        lines = [l for l in buf.getvalue().splitlines() if l.startswith(("FAILED", "UNDECIDED", "ANALYSIS-ERROR", "KNOWN-FINDING"))]
        out[prop] = (rc, lines)
    return out


def main() -> int:
    props = [a.upper() for a in sys.argv[1:]] or PROPS
    worst = 0
    for prop, (rc, lines) in run(props).items():
        print(f"== {prop} rc={rc}")
        for l in lines:
            print(l)
        worst = max(worst, rc)
    return worst


if __name__ == "__main__":
    sys.exit(main())
