"""Apply a unified diff to source texts in memory (no files are written): used to replay the committed corpus of
seeded (property-breaking) changes and behaviour-preserving refactorings against the rules on every thorough run."""

from __future__ import annotations

import re
from pathlib import Path


class PatchError(Exception):
    pass


def apply_diff(root: Path, diff_text: str) -> dict[str, str]:
    """{relative path: patched source} for every file the diff touches (files are read from `root`)."""
    out: dict[str, str] = {}
    files = re.split(r"^diff --git .*$", diff_text, flags=re.M)
    for chunk in files:
        m = re.search(r"^\+\+\+ (?:b/)?(\S+)", chunk, flags=re.M)
        mo = re.search(r"^--- (?:a/)?(\S+)", chunk, flags=re.M)
        if not m:
            continue
        rel = m.group(1)
        if rel == "/dev/null":
            continue
        old_lines = [] if (mo and mo.group(1) == "/dev/null") else (root / rel).read_text().split("\n")
        new_lines: list[str] = []
        pos = 0  # index into old_lines
        for h in re.finditer(r"^@@ -(\d+)(?:,(\d+))? \+(\d+)(?:,(\d+))? @@.*\n((?:[ +\-\\].*\n?|\n)*)", chunk, flags=re.M):
            start = int(h.group(1)) - 1 if int(h.group(2) or 1) else int(h.group(1))
            body0 = h.group(5)[:-1] if h.group(5).endswith("\n") else h.group(5)
            old_side = [ln[1:] if ln else "" for ln in body0.split("\n") if not ln.startswith(("+", "\\"))]
            if old_lines[start:start + len(old_side)] != old_side:  # the file moved on since the diff was made: look for the hunk nearby
                for off in sorted(range(-200, 201), key=abs):
                    if start + off >= pos and old_lines[start + off:start + off + len(old_side)] == old_side:
                        start += off
                        break
            if start < pos:
                raise PatchError(f"{rel}: overlapping hunks")
            new_lines += old_lines[pos:start]
            pos = start
            body = h.group(5)
            body = body[:-1] if body.endswith("\n") else body
            for line in body.split("\n"):
                if line.startswith("\\"):
                    continue
                tag, text = (line[:1], line[1:]) if line else (" ", "")
                if tag == " ":
                    if pos < len(old_lines) and old_lines[pos] != text:
                        if line == "" and pos >= len(old_lines) - 1:
                            continue
                        raise PatchError(f"{rel}: context mismatch at line {pos + 1}: {old_lines[pos]!r} != {text!r}")
                    if pos < len(old_lines):
                        new_lines.append(old_lines[pos])
                        pos += 1
                elif tag == "-":
                    if pos >= len(old_lines) or old_lines[pos] != text:
                        raise PatchError(f"{rel}: removed line mismatch at line {pos + 1}")
                    pos += 1
                elif tag == "+":
                    new_lines.append(text)
        new_lines += old_lines[pos:]
        out[rel] = "\n".join(new_lines)
    return out
