"""Name-insensitive helpers: local definitions, expression expansion, condition normal form.

These exist so that rules describe *what flows where* and *under which condition*, not how locals are named or
whether a temporary was introduced: `resolve` substitutes uniquely-defined locals by their defining expressions,
`cond` brings a test into (text, polarity) form, `guards` gives the expanded conditions controlling a CFG node.
"""

from __future__ import annotations

import ast
import copy
import re

from .loader import FuncInfo, dotted, norm, walk_no_nested


class Defs:
    def __init__(self, fn: FuncInfo | ast.AST) -> None:
        node = fn.node if isinstance(fn, FuncInfo) else fn
        self.node = node
        self.count: dict[str, int] = {}
        self.value: dict[str, ast.AST] = {}
        params = set()
        if isinstance(node, (ast.FunctionDef, ast.AsyncFunctionDef)):
            a = node.args
            params = {x.arg for x in [*a.posonlyargs, *a.args, *a.kwonlyargs, *([a.vararg] if a.vararg else []), *([a.kwarg] if a.kwarg else [])]}
        self.params = params
        for n in walk_no_nested(node):
            if isinstance(n, ast.Assign) and len(n.targets) == 1 and isinstance(n.targets[0], ast.Name):
                self._add(n.targets[0].id, n.value)
            elif isinstance(n, ast.Assign) and len(n.targets) == 1 and isinstance(n.targets[0], ast.Tuple) and isinstance(n.value, ast.Tuple) and len(n.value.elts) == len(n.targets[0].elts) \
                    and all(isinstance(t, ast.Name) for t in n.targets[0].elts):
                for t, v in zip(n.targets[0].elts, n.value.elts):  # a, b = x, y
                    self._add(t.id, v)
            elif isinstance(n, ast.AnnAssign) and isinstance(n.target, ast.Name) and n.value is not None:
                self._add(n.target.id, n.value)
            elif isinstance(n, ast.NamedExpr) and isinstance(n.target, ast.Name):
                self._add(n.target.id, n.value)
            elif isinstance(n, ast.AugAssign) and isinstance(n.target, ast.Name):
                self.count[n.target.id] = self.count.get(n.target.id, 0) + 2  # not a plain definition
            elif isinstance(n, (ast.For, ast.AsyncFor, ast.comprehension)):
                for t in ast.walk(n.target):
                    if isinstance(t, ast.Name):
                        self.count[t.id] = self.count.get(t.id, 0) + 2
            elif isinstance(n, (ast.With, ast.AsyncWith)):
                for it in n.items:
                    if it.optional_vars is not None:
                        for t in ast.walk(it.optional_vars):
                            if isinstance(t, ast.Name):
                                self.count[t.id] = self.count.get(t.id, 0) + 2
            elif isinstance(n, ast.Assign):
                for t in n.targets:
                    for x in ast.walk(t):
                        if isinstance(x, ast.Name) and isinstance(x.ctx, ast.Store):
                            self.count[x.id] = self.count.get(x.id, 0) + 2
                        # `acc[k] = v`: acc is an accumulator, its definition is not its value at the use
                        if isinstance(x, ast.Subscript) and isinstance(x.value, ast.Name) and isinstance(x.ctx, ast.Store):
                            self.count[x.value.id] = self.count.get(x.value.id, 0) + 2
            if isinstance(n, ast.Call) and isinstance(n.func, ast.Attribute) and n.func.attr in self._MUTATORS and isinstance(n.func.value, ast.Name):
                self.count[n.func.value.id] = self.count.get(n.func.value.id, 0) + 2  # mutated in place: an accumulator
            if isinstance(n, (ast.AugAssign, ast.Delete)):
                for t in ([n.target] if isinstance(n, ast.AugAssign) else n.targets):
                    if isinstance(t, ast.Subscript) and isinstance(t.value, ast.Name):
                        self.count[t.value.id] = self.count.get(t.value.id, 0) + 2

    _EFFECTFUL = {"pop", "popitem", "next", "send", "read", "readline", "readlines", "__next__", "popleft", "get_nowait", "recv"}
    _MUTATORS = {"add", "append", "extend", "update", "insert", "remove", "discard", "clear", "setdefault", "pop", "popitem", "sort", "reverse", "appendleft"}

    def _add(self, name: str, value: ast.AST) -> None:
        from .loader import dotted

        effectful = any(isinstance(c, ast.Call) and ((isinstance(c.func, ast.Attribute) and c.func.attr in self._EFFECTFUL) or dotted(c.func) in ("next", "input")) for c in ast.walk(value))
        self.count[name] = self.count.get(name, 0) + (2 if effectful else 1)  # re-evaluating an effectful definition is not the same value
        self.value[name] = value

    def unique(self, name: str) -> ast.AST | None:
        if name in self.params or self.count.get(name, 0) != 1:
            return None
        return self.value.get(name)

    def resolve(self, expr: ast.AST, depth: int = 5) -> ast.AST:
        """`expr` with every uniquely-defined local replaced by its definition (recursively, bounded)."""
        defs = self

        class Sub(ast.NodeTransformer):
            def __init__(self, d: int) -> None:
                self.d = d

            def visit_Name(self, node: ast.Name):  # noqa: N802
                if isinstance(node.ctx, ast.Load) and self.d > 0:
                    v = defs.unique(node.id)
                    if v is not None and not any(isinstance(x, ast.Name) and x.id == node.id for x in ast.walk(v)):
                        return Sub(self.d - 1).visit(copy.deepcopy(v))
                return node

            def visit_Lambda(self, node):  # noqa: N802
                return node

        return Sub(depth).visit(copy.deepcopy(expr))

    def text(self, expr: ast.AST) -> str:
        return norm(self.resolve(expr))


def cond(test: ast.AST) -> tuple[str, bool]:
    """(text without leading negations, polarity)."""
    pol = True
    while isinstance(test, ast.UnaryOp) and isinstance(test.op, ast.Not):
        test = test.operand
        pol = not pol
    t = norm(test)
    if isinstance(test, ast.Compare) and len(test.ops) == 1:
        flip = {ast.IsNot: ast.Is, ast.NotIn: ast.In, ast.NotEq: ast.Eq}
        for neg, posop in flip.items():
            if isinstance(test.ops[0], neg):
                t = norm(ast.Compare(left=test.left, ops=[posop()], comparators=test.comparators))
                pol = not pol
    return t, pol


def guards(cfg, defs: Defs, node: int) -> list[tuple[str, bool]]:
    """Expanded (condition text, required polarity) pairs controlling CFG node `node`."""
    out = []
    for test, truth in cfg.controls(node):
        t, pol = cond(defs.resolve(test))
        out.append((t, truth == pol))
    return out


def calls(node: ast.AST, *names: str) -> list[ast.Call]:
    """Calls in `node` whose callee's last dotted component is one of `names`."""
    from .loader import dotted

    out = []
    for c in ast.walk(node):
        if isinstance(c, ast.Call):
            d = dotted(c.func)
            last = d.rsplit(".", 1)[-1] if d else (c.func.attr if isinstance(c.func, ast.Attribute) else "")
            if last in names:
                out.append(c)
    return out


def arg(call: ast.Call, pos: int, name: str, defs: "Defs | None" = None) -> ast.AST | None:
    """Positional-or-keyword argument of a call."""
    for k in call.keywords:
        if k.arg == name:
            return k.value
    plain = [a for a in call.args if not isinstance(a, ast.Starred)]
    if len(plain) == len(call.args):
        return plain[pos] if pos < len(plain) else None
    # `f(a, b, *rest)` with `rest = (c, d)` spelled out a few lines above: the splat of a tuple literal is those arguments
    if defs is not None:
        flat: list[ast.AST] = []
        for a in call.args:
            if isinstance(a, ast.Starred):
                v = defs.resolve(a.value)
                if not isinstance(v, (ast.Tuple, ast.List)) or any(isinstance(e, ast.Starred) for e in v.elts):
                    return None
                flat += list(v.elts)
            else:
                flat.append(a)
        return flat[pos] if pos < len(flat) else None
    return None


class Scope:
    """A function together with the private helpers it (transitively) calls in its own module.

    Rules that ask "does the implementation of F ... somewhere" look at the scope, so that extracting a block of F into
    a private helper (or inlining one) does not change the verdict.
    """

    def __init__(self, ctx, fn: FuncInfo, depth: int = 3, wide: bool = False) -> None:
        """`wide`: also follow public functions of the same module and other methods of the same class."""
        self.ctx = ctx
        self.root = fn
        self.funcs: list[FuncInfo] = [fn]
        frontier = [fn]
        for _ in range(depth):
            nxt = []
            for f in frontier:
                for s in ctx.cg.sites.get(f.qualname, []):
                    for c in s.callees:
                        if c in self.funcs or c.module.name != fn.module.name:
                            continue
                        private = c.name.startswith("_") and not c.name.startswith("__")
                        nested = c.parent is not None
                        same_class = c.cls is not None and f.cls is not None and c.cls is f.cls and wide
                        if private or nested or same_class or (wide and c.cls is None):
                            self.funcs.append(c)
                            nxt.append(c)
                for sub in f.nested.values():
                    if sub not in self.funcs:
                        self.funcs.append(sub)
                        nxt.append(sub)
            frontier = nxt

    def walk(self):
        for f in self.funcs:
            for n in ast.walk(f.node):
                yield f, n

    def calls(self, *names: str) -> list[tuple[FuncInfo, ast.Call]]:
        from .loader import dotted

        out = []
        for f, n in self.walk():
            if isinstance(n, ast.Call):
                d = dotted(n.func)
                last = d.rsplit(".", 1)[-1] if d else (n.func.attr if isinstance(n.func, ast.Attribute) else "")
                if last in names:
                    out.append((f, n))
        return out

    def attrs_read(self, base: str = "self") -> set[str]:
        return {n.attr for _f, n in self.walk() if isinstance(n, ast.Attribute) and isinstance(n.value, ast.Name) and n.value.id == base}

    def str_consts(self) -> set[str]:
        return {n.value for _f, n in self.walk() if isinstance(n, ast.Constant) and isinstance(n.value, str)}

    def text(self) -> str:
        return "\n".join(norm(f.node) for f in self.funcs)

    def raises(self) -> list[tuple[FuncInfo, ast.Raise]]:
        return [(f, n) for f, n in self.walk() if isinstance(n, ast.Raise)]

    def const_nodes(self) -> list[ast.AST]:
        """Values of the module-level (and class-level) constants that the scope names."""
        out: list[ast.AST] = []
        seen: set[str] = set()
        for f, n in self.walk():
            name = n.id if isinstance(n, ast.Name) else (n.attr if isinstance(n, ast.Attribute) and isinstance(n.value, ast.Name) and n.value.id in ("self", "cls") else None)
            if name is None or name in seen:
                continue
            seen.add(name)
            v = f.module.assigns.get(name)
            if v is None and f.cls is not None:
                v = f.cls.class_assigns.get(name)
            if v is not None:
                out.append(v)
                # tables computed from other tables (`_LABELS = {v: k for k, v in _TOKENS.items()}`)
                todo = [v]
                while todo:
                    cur = todo.pop()
                    for x in ast.walk(cur):
                        if isinstance(x, ast.Name) and x.id not in seen and x.id in f.module.assigns:
                            seen.add(x.id)
                            out.append(f.module.assigns[x.id])
                            todo.append(f.module.assigns[x.id])
        return out

    def mentions(self, name: str) -> bool:
        """`name` occurs in the scope as an attribute, a keyword, a subscript key or a string constant (also inside the
        module-level tables the scope uses)."""
        for n in [n for _f, n in self.walk()] + [x for c in self.const_nodes() for x in ast.walk(c)]:
            if isinstance(n, ast.Attribute) and n.attr == name:
                return True
            if isinstance(n, ast.Constant) and n.value == name:
                return True
            if isinstance(n, ast.keyword) and n.arg == name:
                return True
        return False

    def dynamic(self) -> bool:
        """The scope reads attributes by computed name (getattr / vars / __dict__ / asdict / fields): claims that something
        is *never* read cannot be made from the text."""
        from .loader import dotted

        for _f, n in self.walk():
            if isinstance(n, ast.Call) and dotted(n.func) in ("getattr", "vars", "asdict", "dataclasses.asdict", "fields", "dataclasses.fields", "operator.attrgetter", "attrgetter"):
                return True
            if isinstance(n, ast.Attribute) and n.attr == "__dict__":
                return True
        return False


def iterations(node: ast.AST) -> list[dict]:
    """Loops and comprehensions in a common form: {'iter': expr, 'target': expr, 'filters': [(text, polarity)], 'node': n}.

    A filter is a condition an element must satisfy to reach the loop's effect: comprehension `if`s, and in statement
    loops `if c: continue` guards (polarity False) as well as an `if c:` that wraps the rest of the body (polarity True).
    """
    out = []
    for n in ast.walk(node):
        if isinstance(n, (ast.ListComp, ast.SetComp, ast.GeneratorExp, ast.DictComp)):
            for g in n.generators:
                out.append({"iter": g.iter, "target": g.target, "filters": [cond(t) for t in g.ifs], "node": n, "kind": "comp"})
        elif isinstance(n, (ast.For, ast.AsyncFor)):
            flt = []
            for st in n.body:
                if isinstance(st, ast.If) and st.body and isinstance(st.body[-1], ast.Continue) and not st.orelse:
                    t, pol = cond(st.test)
                    flt.append((t, not pol))
            if len([s for s in n.body if not (isinstance(s, ast.Expr) and isinstance(s.value, ast.Constant))]) == 1 and isinstance(n.body[-1], ast.If) and not n.body[-1].orelse:
                flt.append(cond(n.body[-1].test))
            out.append({"iter": n.iter, "target": n.target, "filters": flt, "node": n, "kind": "loop"})
    return out


def merge_winner(fn_node: ast.AST, a: str, b: str) -> str | None:
    """Who wins when mappings derived from `a` and from `b` are merged in `fn_node`: 'a', 'b' or None (not recognised).

    Recognised forms: dict(A, **B), {**A, **B}, A | B, and `x = <A-derived>` followed by `x.update(<B-derived>)`.
    """
    def side(e: ast.AST) -> str | None:
        t = ast.unparse(e)
        has_a, has_b = a in t, b in t
        return "a" if has_a and not has_b else ("b" if has_b and not has_a else None)

    d = Defs(fn_node)
    for n in ast.walk(fn_node):
        if isinstance(n, ast.Call) and isinstance(n.func, ast.Name) and n.func.id == "dict" and len(n.args) == 1:
            star = [k.value for k in n.keywords if k.arg is None]
            if star:
                x, y = side(d.resolve(n.args[0])), side(d.resolve(star[0]))
                if x and y and x != y:
                    return y
        if isinstance(n, ast.Dict) and len(n.keys) == 2 and all(k is None for k in n.keys):
            x, y = side(d.resolve(n.values[0])), side(d.resolve(n.values[1]))
            if x and y and x != y:
                return y
        if isinstance(n, ast.BinOp) and isinstance(n.op, ast.BitOr):
            x, y = side(d.resolve(n.left)), side(d.resolve(n.right))
            if x and y and x != y:
                return y
        if isinstance(n, ast.Call) and isinstance(n.func, ast.Attribute) and n.func.attr == "update" and isinstance(n.func.value, ast.Name) and n.args:
            base = d.value.get(n.func.value.id)
            if base is not None:
                x, y = side(d.resolve(base)), side(d.resolve(n.args[0]))
                if x and y and x != y:
                    return y
    return None


_COPIERS = {"dict", "list", "set", "tuple", "frozenset", "copy.copy", "copy.deepcopy", "deepcopy", "sorted"}


def _fresh_wrt(value: ast.AST, name: str) -> bool:
    """`value` cannot evaluate to the object bound to `name` (every use of `name` is a test or inside a copying call)."""
    par = {id(c): p for p in ast.walk(value) for c in ast.iter_child_nodes(p)}
    from .loader import dotted

    for x in ast.walk(value):
        if not (isinstance(x, ast.Name) and x.id == name):
            continue
        y: ast.AST = x
        ok = False
        while id(y) in par:
            child, y = y, par[id(y)]
            if isinstance(y, ast.Call) and (dotted(y.func) in _COPIERS or (isinstance(y.func, ast.Attribute) and y.func.attr in ("copy", "items", "keys", "values") and child is y.func)):
                ok = True
            if isinstance(y, ast.Call) and dotted(y.func) in _COPIERS and child in y.args:
                ok = True
            if isinstance(y, ast.Compare) or (isinstance(y, ast.IfExp) and child is y.test):
                ok = True
            if isinstance(y, (ast.Dict, ast.DictComp, ast.ListComp, ast.SetComp)):
                ok = True  # {**x} / comprehension over x builds a new container
            if isinstance(y, ast.BinOp) and isinstance(y.op, ast.BitOr):
                ok = True  # x | y builds a new dict
        if isinstance(value, ast.Name) and value.id == name:
            ok = False
        if not ok:
            return False
    return True


def caller_object_mutations(cfg, fn_node: ast.AST, param: str) -> list[ast.AST]:
    """Statements that may mutate the object the CALLER passed as `param` (in place), following rebinding of the name.

    The entry binding of `param` is killed by an assignment `param = <value that cannot be the same object>`; a mutating
    method call / subscript store / augmented assignment through `param` that is reachable from ENTRY without crossing a
    kill mutates the caller's object.
    """
    from .cfg import ENTRY

    mut = {"update", "setdefault", "append", "extend", "pop", "popitem", "clear", "insert", "remove", "sort", "reverse", "add", "discard", "__setitem__"}
    kills = set(cfg.nodes(lambda s: isinstance(s, (ast.Assign, ast.AnnAssign)) and getattr(s, "value", None) is not None
                          and any(isinstance(t, ast.Name) and t.id == param for t in (s.targets if isinstance(s, ast.Assign) else [s.target])) and _fresh_wrt(s.value, param)))
    reach = cfg.reachable_from(ENTRY, without=kills)
    # a kill node itself is reached with the old binding but its own store happens after evaluation: not a mutation site
    out = []
    for n in sorted(reach - kills):
        st = cfg.stmt.get(n)
        if st is None:
            continue
        from .cfg import header_parts

        for part in header_parts(st):
            for x in ast.walk(part):
                if isinstance(x, ast.Call) and isinstance(x.func, ast.Attribute) and x.func.attr in mut and isinstance(x.func.value, ast.Name) and x.func.value.id == param:
                    out.append(x)
            if isinstance(part, (ast.Assign, ast.AugAssign, ast.Delete)):
                tg = part.targets if isinstance(part, (ast.Assign, ast.Delete)) else [part.target]
                for t in tg:
                    if isinstance(t, ast.Subscript) and isinstance(t.value, ast.Name) and t.value.id == param:
                        out.append(part)
                    if isinstance(part, ast.AugAssign) and isinstance(t, ast.Name) and t.id == param:
                        out.append(part)
    return out


_FLIP = {ast.Is: ast.IsNot, ast.IsNot: ast.Is, ast.Eq: ast.NotEq, ast.NotEq: ast.Eq, ast.In: ast.NotIn, ast.NotIn: ast.In,
         ast.Lt: ast.GtE, ast.GtE: ast.Lt, ast.Gt: ast.LtE, ast.LtE: ast.Gt}


def nnf(test: ast.AST, neg: bool = False) -> str:
    """Negation normal form of a condition as text: `not` pushed inwards (De Morgan), comparison operators flipped."""
    if isinstance(test, ast.UnaryOp) and isinstance(test.op, ast.Not):
        return nnf(test.operand, not neg)
    if isinstance(test, ast.BoolOp):
        is_and = isinstance(test.op, ast.And) != neg
        return "(" + (" and " if is_and else " or ").join(nnf(v, neg) for v in test.values) + ")"
    if isinstance(test, ast.Compare) and len(test.ops) == 1:
        op = test.ops[0]
        if neg and type(op) in _FLIP:
            op = _FLIP[type(op)]()
            neg = False
        t = norm(ast.Compare(left=test.left, ops=[op], comparators=test.comparators))
        return f"not ({t})" if neg else t
    t = norm(test)
    return f"not {t}" if neg else t


def _quantified(test: ast.AST, pol: bool):
    """Unfold `any(P for ..)` / `not all(P for ..)` in a controlling test: ([(target, iter)], [condition texts])."""
    from .loader import dotted

    t = test
    pol0 = pol
    while isinstance(t, ast.UnaryOp) and isinstance(t.op, ast.Not):
        t, pol = t.operand, not pol
    if isinstance(t, ast.NamedExpr):
        t = t.value
    if isinstance(t, ast.Call) and dotted(t.func) in ("any", "all") and t.args and isinstance(t.args[0], (ast.GeneratorExp, ast.ListComp)):
        g = t.args[0]
        is_any = dotted(t.func) == "any"
        if is_any == pol:  # any(...) true / all(...) false: there is an element with P / not P
            its = [(norm(c.target), c.iter) for c in g.generators]
            conds = [nnf(g.elt, neg=not is_any)] + [nnf(i) for c in g.generators for i in c.ifs]
            return its, conds
    return [], [nnf(test, neg=not pol0)]


def rejections(cfg, fn_node: ast.AST, defs: Defs | None = None) -> list[dict]:
    """Every `raise` of a function with the circumstances under which it is reached.

    {'node': Raise, 'iters': [(target text, iter expr)], 'conds': [nnf condition text], 'dead': bool}
    Conditions come from the branch decisions controlling the raise (early returns included), from `continue` guards and
    from any()/all() quantifiers in those decisions; iteration domains from enclosing loops and from the quantifiers.
    Local definitions are followed when `defs` is given.
    """
    par = {id(c): p for p in ast.walk(fn_node) for c in ast.iter_child_nodes(p)}
    out = []
    for n in cfg.nodes(lambda s: isinstance(s, ast.Raise)):
        st = cfg.stmt[n]
        iters: list[tuple[str, ast.AST]] = []
        conds: list[str] = []
        tests: list[tuple[ast.AST, bool]] = []
        dead = False
        x: ast.AST = st
        while id(x) in par:
            child, x = x, par[id(x)]
            if isinstance(x, (ast.For, ast.AsyncFor)) and child in x.body:
                iters.append((norm(x.target), x.iter))
                # `if c: continue` guards before the statement in the loop body
                for prev in x.body:
                    if prev is child:
                        break
                    if isinstance(prev, ast.If) and prev.body and isinstance(prev.body[-1], ast.Continue) and not prev.orelse:
                        pt = defs.resolve(prev.test) if defs is not None else prev.test
                        conds.append(nnf(pt, neg=True))
                        tests.append((pt, False))
        for test, truth in cfg.controls(n):
            t = defs.resolve(test) if defs is not None else test
            tests.append((t, truth))
            its, cs = _quantified(t, truth)
            iters += its
            conds += cs
            v = bool_eval(test, {})
            if v is not None and v != truth:
                dead = True
        out.append({"node": st, "iters": iters, "conds": conds, "tests": tests, "dead": dead})
    return out


def inline_predicates(ctx, fn: FuncInfo, expr: ast.AST, depth: int = 2) -> ast.AST:
    """`expr` with calls to one-expression helper functions of the same module replaced by the helper's returned
    expression (parameters substituted by the arguments) and `bool(x)` replaced by `x`."""
    from .loader import dotted

    class Inl(ast.NodeTransformer):
        def visit_Call(self, node: ast.Call):  # noqa: N802
            self.generic_visit(node)
            if dotted(node.func) == "bool" and len(node.args) == 1 and not node.keywords:
                return node.args[0]
            if depth <= 0:
                return node
            for callee in ctx.cg.resolve_callable(fn, node.func):
                if callee.module.name != fn.module.name:
                    continue
                body = [s for s in callee.node.body if not (isinstance(s, ast.Expr) and isinstance(s.value, ast.Constant))]
                if len(body) == 1 and isinstance(body[0], ast.Return) and body[0].value is not None:
                    ps = [p for p in callee.param_names() if p not in ("self", "cls")]
                    if isinstance(node.func, ast.Attribute) and callee.param_names()[:1] == ["self"]:
                        mapping = {"self": node.func.value}
                    else:
                        mapping = {}
                    mapping.update({ps[i]: a for i, a in enumerate(node.args) if i < len(ps)})
                    mapping.update({k.arg: k.value for k in node.keywords if k.arg})

                    class Sub(ast.NodeTransformer):
                        def visit_Name(self, n: ast.Name):  # noqa: N802
                            return copy.deepcopy(mapping[n.id]) if n.id in mapping else n

                    return inline_predicates(ctx, callee, Sub().visit(copy.deepcopy(body[0].value)), depth - 1)
            return node

    return Inl().visit(copy.deepcopy(expr))


def reordered(expr: ast.AST) -> bool:
    """The iteration source is explicitly re-ordered (reversed / sorted / a set / a reversing slice)."""
    t = norm(expr)
    return any(w in t for w in ("reversed(", "sorted(", "set(", "[::-1]", "frozenset("))


def _atom(e: ast.AST) -> tuple[str, bool]:
    """(positive text, polarity) of an atomic condition."""
    return cond(e)


def bool_atoms(e: ast.AST) -> list[str]:
    """Positive texts of the atomic conditions of a boolean expression (through and/or/not, bool())."""
    from .loader import dotted

    if isinstance(e, ast.BoolOp):
        out: list[str] = []
        for v in e.values:
            for a in bool_atoms(v):
                if a not in out:
                    out.append(a)
        return out
    if isinstance(e, ast.UnaryOp) and isinstance(e.op, ast.Not):
        return bool_atoms(e.operand)
    if isinstance(e, ast.Call) and dotted(e.func) == "bool" and len(e.args) == 1:
        return bool_atoms(e.args[0])
    if isinstance(e, ast.IfExp):
        out = []
        for part in (e.test, e.body, e.orelse):
            for a in bool_atoms(part):
                if a not in out:
                    out.append(a)
        return out
    return [_atom(e)[0]]


def bool_eval(e: ast.AST, env: dict[str, bool]) -> bool | None:
    """Truth value of a boolean expression under an assignment of its atoms (None when an atom is not assigned).

    Python's and/or return operands; here only the truth value matters (the expression is used as a condition)."""
    from .loader import dotted

    if isinstance(e, ast.BoolOp):
        vals = [bool_eval(v, env) for v in e.values]
        if isinstance(e.op, ast.And):
            if any(v is False for v in vals):
                return False
            return None if any(v is None for v in vals) else True
        if any(v is True for v in vals):
            return True
        return None if any(v is None for v in vals) else False
    if isinstance(e, ast.UnaryOp) and isinstance(e.op, ast.Not):
        v = bool_eval(e.operand, env)
        return None if v is None else not v
    if isinstance(e, ast.Call) and dotted(e.func) == "bool" and len(e.args) == 1:
        return bool_eval(e.args[0], env)
    if isinstance(e, ast.Constant) and isinstance(e.value, bool):
        return e.value
    if isinstance(e, ast.IfExp):
        c = bool_eval(e.test, env)
        if c is None:
            x, y = bool_eval(e.body, env), bool_eval(e.orelse, env)
            return x if x is not None and x == y else None
        return bool_eval(e.body if c else e.orelse, env)
    if isinstance(e, ast.Compare) and len(e.ops) == 1 and isinstance(e.ops[0], (ast.Eq, ast.NotEq, ast.Is, ast.IsNot)) and not (isinstance(e.comparators[0], ast.Constant) and e.comparators[0].value is None):
        l_, r_ = bool_eval(e.left, env), bool_eval(e.comparators[0], env)
        if l_ is not None and r_ is not None:
            return (l_ == r_) if isinstance(e.ops[0], (ast.Eq, ast.Is)) else (l_ != r_)
    t, pol = _atom(e)
    if t not in env:
        return None
    return env[t] == pol


def all_defs_text(fn_node: ast.AST, name: str) -> str:
    """Text of every value assigned to local `name` (for names with several definitions, e.g. one per branch)."""
    out = []
    for s in ast.walk(fn_node):
        if isinstance(s, ast.Assign) and any(isinstance(t, ast.Name) and t.id == name for t in s.targets):
            out.append(norm(s.value))
        elif isinstance(s, ast.AnnAssign) and isinstance(s.target, ast.Name) and s.target.id == name and s.value is not None:
            out.append(norm(s.value))
    return " || ".join(out)


def conjuncts(test: ast.AST, truth: bool) -> list[tuple[str, bool]]:
    """Atomic (text, polarity) facts that hold when `test` evaluated to `truth` (splits `a and b` / `not (a or b)`)."""
    if isinstance(test, ast.UnaryOp) and isinstance(test.op, ast.Not):
        return conjuncts(test.operand, not truth)
    if isinstance(test, ast.BoolOp) and isinstance(test.op, ast.And if truth else ast.Or):
        out: list[tuple[str, bool]] = []
        for v in test.values:
            out += conjuncts(v, truth)
        return out
    simp = _none_test_of_conditional(test)
    if simp is not None:
        return conjuncts(simp[0], truth == simp[1])
    t, pol = cond(test)
    return [(t, pol == truth)]


def _never_none(e: ast.AST) -> bool:
    if isinstance(e, ast.Constant):
        return e.value is not None
    if isinstance(e, (ast.BinOp, ast.JoinedStr, ast.Tuple, ast.List, ast.Dict, ast.Set, ast.ListComp, ast.DictComp, ast.SetComp, ast.Lambda)):
        return True
    return isinstance(e, ast.Call) and isinstance(e.func, ast.Name) and e.func.id[:1].isupper()


def _none_test_of_conditional(test: ast.AST) -> tuple[ast.AST, bool] | None:
    """`(None if c else e) is None` with `e` an expression that cannot be None (an arithmetic/path expression, a literal, a
    constructor call) says `c`; returns (c, polarity) - the test is equivalent to `c` when polarity is True, to `not c` otherwise."""
    if not (isinstance(test, ast.Compare) and len(test.ops) == 1 and isinstance(test.ops[0], (ast.Is, ast.IsNot))
            and isinstance(test.comparators[0], ast.Constant) and test.comparators[0].value is None and isinstance(test.left, ast.IfExp)):
        return None
    ie = test.left
    none_body = isinstance(ie.body, ast.Constant) and ie.body.value is None
    none_else = isinstance(ie.orelse, ast.Constant) and ie.orelse.value is None
    if none_body and _never_none(ie.orelse):
        pol = True
    elif none_else and _never_none(ie.body):
        pol = False
    else:
        return None
    return ie.test, pol == isinstance(test.ops[0], ast.Is)


def guard_facts(cfg, defs: Defs, node: int) -> list[tuple[str, bool]]:
    """Like `guards`, with conjunctions split into their atomic facts."""
    out: list[tuple[str, bool]] = []
    for test, truth in cfg.controls(node):
        out += conjuncts(defs.resolve(test), truth)
    return out


def unreachable_when(cfg, defs: Defs, node: int, env: dict[str, bool]) -> bool:
    """No assignment of the other atoms lets every branch decision controlling `node` come out as required when the
    atoms of `env` have the given truth values (e.g. env={'cleanup': False}: the node only runs when cleanup is true)."""
    import itertools

    ctrl = [(defs.resolve(t), truth) for t, truth in cfg.controls(node)]
    atoms = sorted({a for t, _tr in ctrl for a in bool_atoms(t)} - set(env))[:8]
    for vals in itertools.product((True, False), repeat=len(atoms)):
        e = dict(zip(atoms, vals)) | env
        if all(bool_eval(t, e) in (truth, None) for t, truth in ctrl):
            return False
    return True


def decide(body: list[ast.stmt], env: dict[str, bool]) -> bool | None:
    """Truth value returned by a predicate written as a chain of `if c: return x` / `return x` statements, under an
    assignment of its atomic conditions; None when the body has another shape or an atom is not assigned."""
    for st in body:
        if isinstance(st, ast.Expr) and isinstance(st.value, ast.Constant):
            continue
        if isinstance(st, ast.Return):
            return bool_eval(st.value, env) if st.value is not None else None
        if isinstance(st, ast.If):
            c = bool_eval(st.test, env)
            if c is None:
                return None
            r = decide(st.body if c else st.orelse, env)
            if r is not None or (c and st.body) or (not c and st.orelse):
                if r is not None:
                    return r
                if (c and any(isinstance(x, ast.Return) for x in st.body)) or (not c and any(isinstance(x, ast.Return) for x in st.orelse)):
                    return None
            continue
        return None
    return None


def absence_by_none(fn_node: ast.AST, containers: tuple[str, ...] = ()) -> list[tuple[ast.AST, str]]:
    """Sites where the presence of a key is decided by comparing `<container>.get(key)` with None (or by its truth value).

    Where None (or a falsy value) is a legal stored value this confuses "stored None" with "absent".  `containers`
    restricts the receivers by substring (empty = any).  Returns (node, receiver text)."""
    d = Defs(fn_node)
    out: list[tuple[ast.AST, str]] = []

    def is_get(e: ast.AST, depth: int = 1) -> str | None:
        e = e.value if isinstance(e, ast.NamedExpr) else e
        if isinstance(e, ast.Name) and d.unique(e.id) is None and depth:
            # several definitions (one per branch): it is enough that one of them is such a lookup
            for st in ast.walk(fn_node):
                if isinstance(st, ast.Assign) and any(isinstance(t, ast.Name) and t.id == e.id for t in st.targets) and not isinstance(st.value, ast.Name):
                    r = is_get(st.value, 0)
                    if r:
                        return r
            return None
        e = d.resolve(e) if isinstance(e, ast.Name) else e
        e = e.value if isinstance(e, ast.NamedExpr) else e
        if isinstance(e, ast.Call) and isinstance(e.func, ast.Attribute) and e.func.attr == "get" and 1 <= len(e.args) <= 2 and not e.keywords:
            if len(e.args) == 2 and not (isinstance(e.args[1], ast.Constant) and e.args[1].value is None):
                return None  # a sentinel default tells absence apart
            recv = norm(e.func.value)
            if not containers or any(c in recv for c in containers):
                return recv
        return None

    for n in ast.walk(fn_node):
        if isinstance(n, ast.Compare) and len(n.ops) == 1 and isinstance(n.ops[0], (ast.Is, ast.IsNot)) and isinstance(n.comparators[0], ast.Constant) and n.comparators[0].value is None:
            r = is_get(n.left)
            if r:
                out.append((n, r))
        if isinstance(n, (ast.If, ast.IfExp, ast.While)):
            t = n.test
            while isinstance(t, ast.UnaryOp) and isinstance(t.op, ast.Not):
                t = t.operand
            r = is_get(t) if isinstance(t, (ast.Name, ast.NamedExpr, ast.Call)) else None
            if r:
                out.append((n, r))
        if isinstance(n, ast.BoolOp) and len(n.values) >= 2:
            # `X.get(key) or <default>`: every falsy stored value (0, "", an empty list, None) is replaced by the default
            for v in n.values[:-1]:
                r = is_get(v) if isinstance(v, (ast.Name, ast.NamedExpr, ast.Call)) else None
                if r:
                    out.append((n, r))
    return out


def all_merges(fn_node: ast.AST) -> list[tuple[ast.AST, list[ast.AST]]]:
    """Every mapping merge in `fn_node` as (node, operands in increasing precedence): a | b, {**a, **b}, dict(a, **b),
    and `x = <a>` followed by `x.update(<b>)`."""
    d = Defs(fn_node)
    out: list[tuple[ast.AST, list[ast.AST]]] = []
    seen: set[int] = set()
    for n in ast.walk(fn_node):
        if isinstance(n, ast.BinOp) and isinstance(n.op, ast.BitOr) and id(n) not in seen:
            ops: list[ast.AST] = []

            def flat(e: ast.AST) -> None:
                if isinstance(e, ast.BinOp) and isinstance(e.op, ast.BitOr):
                    seen.add(id(e))
                    flat(e.left)
                    flat(e.right)
                else:
                    ops.append(d.resolve(e))

            flat(n)
            out.append((n, ops))
        elif isinstance(n, ast.Dict) and len(n.keys) >= 2 and all(k is None for k in n.keys):
            out.append((n, [d.resolve(v) for v in n.values]))
        elif isinstance(n, ast.Call) and isinstance(n.func, ast.Name) and n.func.id == "dict" and len(n.args) == 1 and any(k.arg is None for k in n.keywords):
            out.append((n, [d.resolve(n.args[0])] + [d.resolve(k.value) for k in n.keywords if k.arg is None]))
        elif isinstance(n, ast.Call) and isinstance(n.func, ast.Attribute) and n.func.attr == "update" and isinstance(n.func.value, ast.Name) and len(n.args) == 1:
            base = d.value.get(n.func.value.id)
            if base is not None:
                out.append((n, [base, d.resolve(n.args[0])]))
    return out


def reach_rejections(ctx, fn: FuncInfo, depth: int = 3) -> list[dict]:
    """Rejections (live raises with their conditions) of `fn` and of the same-module functions it calls."""
    out = []
    for f in Scope(ctx, fn, depth=depth, wide=True).funcs:
        out += [dict(r, fn=f) for r in rejections(ctx.cfg(f), f.node, Defs(f)) if not r["dead"]]
    return out


def may_raise(ctx, fn: FuncInfo, depth: int = 4) -> bool:
    """`fn` or something it calls inside the package contains an explicit, live `raise`."""
    seen = set()
    frontier = [fn]
    for _ in range(depth):
        nxt = []
        for f in frontier:
            if f.qualname in seen:
                continue
            seen.add(f.qualname)
            if any(not r["dead"] for r in rejections(ctx.cfg(f), f.node)):
                return True
            for s in ctx.cg.sites.get(f.qualname, []):
                nxt += [c for c in s.callees if c.qualname not in seen]
        frontier = nxt
    return False


def bind_args(call: ast.Call, callee: FuncInfo) -> dict[str, ast.AST]:
    """Parameter name -> argument expression of `call` (positional and keyword; `self` skipped for bound methods)."""
    ps = callee.param_names()
    if ps and ps[0] in ("self", "cls") and isinstance(call.func, ast.Attribute):
        ps = ps[1:]
    out: dict[str, ast.AST] = {}
    for i, a in enumerate(call.args):
        if isinstance(a, ast.Starred):
            break
        if i < len(ps):
            out[ps[i]] = a
    for k in call.keywords:
        if k.arg is not None:
            out[k.arg] = k.value
    return out


_STORE_METHODS = ("update", "setdefault", "__setitem__")


def stores_into(ctx, fn: FuncInfo, name: str, depth: int = 2) -> list[tuple[ast.AST, list[FuncInfo]]]:
    """Statements-level constructs of `fn` that put entries into the mapping named `name`: `name[...] = v`,
    `name.update(...)`, or a call that hands `name` to a function which does so with the corresponding parameter.
    Returned as (node, chain of (callee, parameter) followed)."""
    out: list[tuple[ast.AST, list[FuncInfo]]] = []
    for x in ast.walk(fn.node):
        if isinstance(x, (ast.Assign, ast.AugAssign, ast.AnnAssign)):
            targets = x.targets if isinstance(x, ast.Assign) else [x.target]
            if any(isinstance(t, ast.Subscript) and isinstance(t.value, ast.Name) and t.value.id == name for t in targets):
                out.append((x, []))
        elif isinstance(x, ast.Call):
            if isinstance(x.func, ast.Attribute) and x.func.attr in _STORE_METHODS and isinstance(x.func.value, ast.Name) and x.func.value.id == name:
                out.append((x, []))
    if depth > 0:
        for s in ctx.cg.sites.get(fn.qualname, []):
            for c in s.callees:
                for p, a in bind_args(s.node, c).items():
                    if isinstance(a, ast.Name) and a.id == name:
                        inner = stores_into(ctx, c, p, depth - 1)
                        if inner:
                            out.append((s.node, [(c, p)] + inner[0][1]))
    return out


def reachable_under(cfg, defs: Defs, target: int, env: dict[str, bool], max_atoms: int = 8, start: int | None = None) -> bool | None:
    """Is `target` reachable from `start` (default ENTRY) on a path whose `if` decisions are all consistent with one truth assignment of
    the atoms that extends `env`?  True / False; None when there are too many atoms to enumerate.  Decisions whose test
    cannot be evaluated under the assignment are taken both ways (over-approximation of reachability)."""
    import itertools

    from .cfg import ENTRY

    ifs = {n: defs.resolve(cfg.stmt[n].test) for n in cfg.nodes(lambda s: isinstance(s, ast.If))}
    atoms = sorted({a for t in ifs.values() for a in bool_atoms(t)} - set(env))
    if len(atoms) > max_atoms:
        return None
    for vals in itertools.product((True, False), repeat=len(atoms)):
        e = dict(zip(atoms, vals)) | env
        s0 = ENTRY if start is None else start
        seen, todo = {s0}, [s0]
        while todo:
            x = todo.pop()
            if x == target:
                return True
            for y in cfg.g.successors(x):
                if y in seen:
                    continue
                br = cfg.g.edges[x, y].get("branch")
                if br is not None and x in ifs:
                    v = bool_eval(ifs[x], e)
                    if v is not None and v != br:
                        continue
                seen.add(y)
                todo.append(y)
    return False


def param_mutated_in_closure(ctx, fn: FuncInfo, param: str, depth: int = 4, _seen: frozenset = frozenset()) -> list[tuple[FuncInfo, ast.AST]]:
    """Places where the object bound to `param` of `fn` is mutated in place (subscript store / del / mutating method),
    in `fn` or in a function it hands the object to under some parameter (followed through the call graph)."""
    from .rules.c10 import _param_mutations

    out: list[tuple[FuncInfo, ast.AST]] = []
    if (fn.qualname, param) in _seen or depth < 0:
        return out
    _seen = _seen | {(fn.qualname, param)}
    m = _param_mutations(fn)
    if param in m:
        out.append((fn, m[param]))
    for s in ctx.cg.sites.get(fn.qualname, []):
        for c in s.callees:
            for p, a in bind_args(s.node, c).items():
                if isinstance(a, ast.Name) and a.id == param:
                    out += param_mutated_in_closure(ctx, c, p, depth - 1, _seen)
    return out


def dependence_text(fn_node: ast.AST, expr: ast.AST, depth: int = 4) -> str:
    """Text of `expr` followed by the texts of everything its names are computed from inside the function: the values
    assigned to them (all definitions, in-place growth, what a loop variable ranges over) and the tests of the `if`s that
    decide which definition applies."""
    par = {id(c): p for p in ast.walk(fn_node) for c in ast.iter_child_nodes(p)}
    seen: set[str] = set()
    out = [norm(expr)]
    frontier = {x.id for x in ast.walk(expr) if isinstance(x, ast.Name)}

    def controls(node: ast.AST) -> list[ast.AST]:
        res = []
        y = node
        while id(y) in par:
            y = par[id(y)]
            if isinstance(y, (ast.If, ast.While, ast.IfExp)):
                res.append(y.test)
        return res

    for _ in range(depth):
        nxt: set[str] = set()
        for name in frontier - seen:
            seen.add(name)
            sources: list[tuple[ast.AST, ast.AST]] = []  # (defining construct, value expression)
            for a in ast.walk(fn_node):
                tg = a.targets if isinstance(a, ast.Assign) else ([a.target] if isinstance(a, (ast.AnnAssign, ast.AugAssign, ast.NamedExpr)) else [])
                if any(isinstance(x, ast.Name) and x.id == name for t in tg for x in ast.walk(t)) and getattr(a, "value", None) is not None:
                    sources.append((a, a.value))
                # in-place growth counts as a definition: name.append(v) / extend / update / add / setdefault / insert
                if isinstance(a, ast.Call) and isinstance(a.func, ast.Attribute) and isinstance(a.func.value, ast.Name) and a.func.value.id == name and a.func.attr in ("append", "extend", "update", "add", "setdefault", "insert"):
                    sources += [(a, v) for v in [*a.args, *[k.value for k in a.keywords]]]
                # a loop / comprehension variable is computed from what it ranges over
                if isinstance(a, (ast.For, ast.AsyncFor, ast.comprehension)) and any(isinstance(x, ast.Name) and x.id == name for x in ast.walk(a.target)):
                    sources.append((a, a.iter))
            for node, v in sources:
                out.append(norm(v))
                nxt |= {x.id for x in ast.walk(v) if isinstance(x, ast.Name)}
                for t in controls(node):
                    out.append(norm(t))
                    nxt |= {x.id for x in ast.walk(t) if isinstance(x, ast.Name)}
        frontier = nxt
    return " ;; ".join(dict.fromkeys(out))


def parse_expr(text: str) -> ast.AST:
    """The expression a normalised condition text denotes (a Name holding the text when it does not parse)."""
    try:
        return ast.parse(text, mode="eval").body
    except SyntaxError:
        return ast.Name(id="_unparsed_", ctx=ast.Load())


def reachable_tracking_flags(cfg, defs: Defs, target: int, env: dict[str, bool], start: int | None = None, max_atoms: int = 6, at_target: ast.AST | None = None) -> bool | None:
    """Like `reachable_under`, but boolean flags are followed along the path: after `flag = True` / `flag = False` (a constant
    assignment) the atom `flag` has that value until it is assigned again, so `if cond: flag = True ... if flag: return`
    correlates the two tests."""
    import itertools

    from .cfg import ENTRY

    ifs = {n: defs.resolve(cfg.stmt[n].test) for n in cfg.nodes(lambda s: isinstance(s, ast.If))}
    const_assign: dict[int, tuple[str, bool | None]] = {}
    for n in cfg.nodes(lambda s: isinstance(s, ast.Assign) and len(s.targets) == 1 and isinstance(s.targets[0], ast.Name)):
        v = cfg.stmt[n].value
        const_assign[n] = (cfg.stmt[n].targets[0].id, v.value if isinstance(v, ast.Constant) and isinstance(v.value, bool) else None)
    flag_names = {nm for nm, _v in const_assign.values()}
    atoms = sorted({a for t in ifs.values() for a in bool_atoms(t)} - set(env) - flag_names)
    if len(atoms) > max_atoms:
        return None
    s0 = ENTRY if start is None else start
    for vals in itertools.product((True, False), repeat=len(atoms)):
        base = dict(zip(atoms, vals)) | env
        seen = set()
        todo = [(s0, ())]
        while todo:
            x, flags = todo.pop()
            if x == target:
                # `at_target`: a condition that must (be able to) hold on arrival - e.g. the operands left of the one of interest in `a and b`
                if at_target is None or bool_eval(at_target, base | dict(flags)) is not False:
                    return True
                continue
            if (x, flags) in seen:
                continue
            seen.add((x, flags))
            fl = dict(flags)
            if x in const_assign:
                nm, v = const_assign[x]
                if v is None:
                    fl.pop(nm, None)
                else:
                    fl[nm] = v
            e = base | fl
            for y in cfg.g.successors(x):
                br = cfg.g.edges[x, y].get("branch")
                if br is not None and x in ifs:
                    v = bool_eval(ifs[x], e)
                    if v is not None and v != br:
                        continue
                todo.append((y, tuple(sorted(fl.items()))))
    return False


_SETLIKE_CALLS = {"set", "frozenset"}
_SETLIKE_METHODS = {"keys", "items"}


def _setlike(e: ast.AST) -> bool:
    from .loader import dotted

    if isinstance(e, (ast.Set, ast.SetComp)):
        return True
    if isinstance(e, ast.Call):
        if dotted(e.func) in _SETLIKE_CALLS:
            return True
        if isinstance(e.func, ast.Attribute) and e.func.attr in _SETLIKE_METHODS | {"difference", "intersection", "union"}:
            return True
    if isinstance(e, ast.BinOp) and isinstance(e.op, (ast.Sub, ast.BitAnd, ast.BitOr)):
        return _setlike(e.left) or _setlike(e.right)
    return False


def narrowings(expr: ast.AST, *, intersections: bool = True) -> list[tuple[ast.AST, str]]:
    """Constructs inside `expr` that make its value a *restriction* of the collection it is derived from: a set difference, an
    intersection (unless `intersections=False`: the comparison itself may be one), `.difference()/.intersection()`, a
    comprehension with an `if`, `filter(...)`.  Syntactic and exact: arithmetic `-`/`&` (no set-like operand) is not reported."""
    from .loader import dotted

    out: list[tuple[ast.AST, str]] = []
    for n in ast.walk(expr):
        if isinstance(n, ast.BinOp) and isinstance(n.op, ast.Sub) and (_setlike(n.left) or _setlike(n.right)):
            out.append((n, f"set difference `- {norm(n.right)[:40]}`"))
        elif intersections and isinstance(n, ast.BinOp) and isinstance(n.op, ast.BitAnd) and (_setlike(n.left) or _setlike(n.right)):
            out.append((n, f"intersection `{norm(n)[:60]}`"))
        elif isinstance(n, ast.Call) and isinstance(n.func, ast.Attribute) and n.func.attr in (("difference", "intersection") if intersections else ("difference",)):
            out.append((n, f"`.{n.func.attr}({norm(n.args[0])[:40] if n.args else ''})`"))
        elif isinstance(n, (ast.ListComp, ast.SetComp, ast.DictComp, ast.GeneratorExp)) and any(g.ifs for g in n.generators):
            out.append((n, "filter `if " + " and ".join(norm(i)[:50] for g in n.generators for i in g.ifs) + "`"))
        elif isinstance(n, ast.Call) and dotted(n.func) == "filter":
            out.append((n, f"`{norm(n)[:50]}`"))
    return out


def element_domain(ctx, fn: FuncInfo, name: str, whole: tuple[str, ...], depth: int = 4, within: set[str] | None = None) -> list[tuple[str, str, ast.AST]]:
    """Over which collection does the element held by local/parameter `name` of `fn` range?  Followed backwards through loop /
    comprehension targets, uniquely defined locals and parameters (to the argument at every call site inside `within`, when given).
    Answers [(verdict, why, node)], verdict 'whole' (the iterated collection is one of `whole`, unrestricted), 'restricted'
    (a narrowing on the way: filter, difference, intersection) or 'unknown'."""
    node = fn.node
    defs = Defs(fn)
    if depth <= 0:
        return [("unknown", "depth exhausted", node)]

    def from_expr(e: ast.AST, f: FuncInfo, d: Defs, dep: int) -> list[tuple[str, str, ast.AST]]:
        r = d.resolve(e)
        nar = narrowings(r)
        if nar:
            return [("restricted", nar[0][1], e)]
        t = norm(r)
        if t in whole:
            return [("whole", t, e)]
        out: list[tuple[str, str, ast.AST]] = []
        names = [x.id for x in ast.walk(r) if isinstance(x, ast.Name)]
        ps = [nm for nm in names if nm in f.param_names()]
        if len(ps) == 1 and isinstance(r, ast.Name):
            out += from_param(ps[0], f, dep - 1)
        elif isinstance(r, ast.Name):
            out += element_domain(ctx, f, r.id, whole, dep - 1, within)
        else:
            # a wrapper around one collection (`tuple(xs)`, `list(xs)`, `sorted(xs)`, `xs.values()`): look through it
            inner = None
            if isinstance(r, ast.Call) and isinstance(r.func, ast.Name) and r.func.id in ("tuple", "list", "sorted", "reversed", "iter", "enumerate") and len(r.args) >= 1:
                inner = r.args[0]
            elif isinstance(r, ast.Call) and isinstance(r.func, ast.Attribute) and r.func.attr in ("values", "copy") and not r.args:
                inner = r.func.value
            out += from_expr(inner, f, d, dep - 1) if inner is not None and dep > 0 else [("unknown", f"`{t[:50]}`", e)]
        return out

    def from_param(p: str, f: FuncInfo, dep: int) -> list[tuple[str, str, ast.AST]]:
        if dep <= 0:
            return [("unknown", "depth exhausted", f.node)]
        sites = [s for s in ctx.cg.call_sites_of(f.qualname) if s.kind in ("call", "partial") and (within is None or s.caller.qualname in within)]
        out: list[tuple[str, str, ast.AST]] = []
        for s in sites:
            a = bind_args(s.node, f).get(p)
            if a is None:
                out.append(("unknown", f"argument for `{p}` at {s.loc} not bound", s.node))
            elif isinstance(a, ast.Name):
                out += element_domain(ctx, s.caller, a.id, whole, dep, within)
            else:
                out += from_expr(a, s.caller, Defs(s.caller), dep)
        return out or [("unknown", f"no call site of {f.name} found", f.node)]

    # 1. a loop / comprehension target
    its = [it for it in iterations(node) if any(isinstance(x, ast.Name) and x.id == name for x in ast.walk(it["target"]))]
    res: list[tuple[str, str, ast.AST]] = []
    for it in its:
        if it["filters"]:
            res.append(("restricted", "filter `" + it["filters"][0][0][:50] + "`", it["node"]))
        else:
            res += from_expr(it["iter"], fn, defs, depth)
    if its:
        return res
    # 2. a parameter
    if name in fn.param_names():
        return from_param(name, fn, depth)
    # 3. a uniquely defined local
    v = defs.unique(name)
    if v is not None:
        return from_expr(v, fn, defs, depth)
    return [("unknown", f"`{name}` has several definitions", node)]


def callable_targets(ctx, fn: FuncInfo, expr: ast.AST, depth: int = 4) -> list[FuncInfo]:
    """Functions of the package that the callable value `expr` (in `fn`) may denote - like CallGraph.resolve_callable, but also
    followed through parameters (to the arguments at the call sites), uniquely defined locals, wrapper calls that take a
    callable, and fields of record classes (to the arguments at the constructor sites)."""
    from .loader import dotted

    if depth <= 0:
        return []
    out = list(ctx.cg.resolve_callable(fn, expr))
    out = [f for f in out if f.name not in ("__init__", "__post_init__")] or []
    if out:
        return out
    prog = ctx.prog
    if isinstance(expr, ast.Name):
        if expr.id in fn.param_names():
            for s in ctx.cg.call_sites_of(fn.qualname):
                a = bind_args(s.node, fn).get(expr.id)
                if a is not None and s.kind in ("call", "partial", "submit"):
                    out += callable_targets(ctx, s.caller, a, depth - 1)
            return _uniq(out)
        for n in walk_no_nested(fn.node):
            if isinstance(n, ast.Assign) and any(isinstance(t, ast.Name) and t.id == expr.id for t in n.targets):
                out += callable_targets(ctx, fn, n.value, depth - 1)
        return _uniq(out)
    if isinstance(expr, ast.Call):
        if dotted(expr.func) in ("functools.partial", "partial"):
            return callable_targets(ctx, fn, expr.args[0], depth - 1) if expr.args else []
        if not ctx.cg.resolve_callable(fn, expr.func):
            return []  # not a wrapper of the package: what it returns is not followed
        for a in [*expr.args, *[k.value for k in expr.keywords]]:
            if isinstance(a, (ast.Name, ast.Attribute)) and not (isinstance(a, ast.Name) and a.id in ("self", "cls")):
                out += callable_targets(ctx, fn, a, depth - 1)
        return _uniq(out)
    if isinstance(expr, ast.Attribute):
        ty = ctx.cg.typer.expr(fn, expr.value)
        for cq in sorted(ty.classes()):
            cls = prog.classes.get(cq)
            if cls is None or expr.attr not in cls.fields:
                continue
            order = list(cls.fields)
            for f in prog.functions.values():
                for c in walk_no_nested(f.node):
                    if isinstance(c, ast.Call) and dotted(c.func) and prog.resolve_name(f.module, dotted(c.func), f) == cq:
                        pos = order.index(expr.attr)
                        a = next((k.value for k in c.keywords if k.arg == expr.attr), c.args[pos] if pos < len(c.args) and not any(isinstance(x, ast.Starred) for x in c.args[:pos + 1]) else None)
                        if a is not None:
                            out += callable_targets(ctx, f, a, depth - 1)
        return _uniq(out)
    return []


def _uniq(fs: list[FuncInfo]) -> list[FuncInfo]:
    seen, out = set(), []
    for f in fs:
        if f.qualname not in seen:
            seen.add(f.qualname)
            out.append(f)
    return out


def exit_avoiding(cfg, defs: Defs, avoid: set[int], env: dict[str, bool], *, normal_only: bool = True) -> list[int] | None:
    """A path ENTRY -> EXIT that crosses no node of `avoid` and takes no branch that the facts `env` (atom text -> truth) rule out;
    None when there is none (every admissible path passes `avoid`)."""
    from .cfg import ENTRY, EXIT

    ifs = {n: defs.resolve(cfg.stmt[n].test) for n in cfg.nodes(lambda s: isinstance(s, (ast.If, ast.While)))}
    prev: dict[int, int] = {}
    todo, seen = [ENTRY], {ENTRY}
    while todo:
        x = todo.pop()
        if x == EXIT:
            path = [x]
            while path[-1] in prev:
                path.append(prev[path[-1]])
            return path[::-1]
        for y in cfg.g.successors(x):
            e = cfg.g.edges[x, y]
            if y in seen or y in avoid or (normal_only and e.get("exceptional")):
                continue
            br = e.get("branch")
            if br is not None and x in ifs:
                v = bool_eval(ifs[x], env)
                if v is not None and v != br:
                    continue
            seen.add(y)
            prev[y] = x
            todo.append(y)
    return None


def late_bound_closures(fn_node: ast.AST) -> list[tuple[ast.AST, str, ast.AST]]:
    """Closures (lambda / nested def) created in a loop body that read the loop variable as a FREE variable and outlive the
    iteration: [(closure, variable, loop)].  Python binds free variables late - every such closure sees the value of the last
    iteration.  Not reported: the variable bound through a default (`lambda x, f=f: ...`), closures handed as `key=` to
    sorted/min/max or as the function of an immediately consumed map/filter (they are called before the variable changes)."""
    out: list[tuple[ast.AST, str, ast.AST]] = []
    par = {id(c): p for p in ast.walk(fn_node) for c in ast.iter_child_nodes(p)}
    for loop in ast.walk(fn_node):
        if not isinstance(loop, (ast.For, ast.AsyncFor, ast.While)):
            continue
        targets = {x.id for x in ast.walk(loop.target) if isinstance(x, ast.Name)} if not isinstance(loop, ast.While) else set()
        # names assigned in the body change per iteration as well
        for st in loop.body:
            for a in ast.walk(st):
                if isinstance(a, ast.Assign):
                    targets |= {t.id for t in a.targets if isinstance(t, ast.Name)}
        for st in loop.body:
            for cl in ast.walk(st):
                if not isinstance(cl, (ast.Lambda, ast.FunctionDef, ast.AsyncFunctionDef)):
                    continue
                a = cl.args
                own = {x.arg for x in [*a.posonlyargs, *a.args, *a.kwonlyargs, *([a.vararg] if a.vararg else []), *([a.kwarg] if a.kwarg else [])]}
                body = [cl.body] if isinstance(cl, ast.Lambda) else cl.body
                local = {t.id for b in body for s_ in ast.walk(b) if isinstance(s_, ast.Assign) for t in s_.targets if isinstance(t, ast.Name)}
                free = {x.id for b in body for x in ast.walk(b) if isinstance(x, ast.Name) and isinstance(x.ctx, ast.Load)} - own - local
                hit = sorted(free & targets)
                if not hit:
                    continue
                p = par.get(id(cl))
                if isinstance(p, ast.keyword) and p.arg == "key":
                    continue
                if isinstance(p, ast.Call) and isinstance(p.func, ast.Name) and p.func.id in ("map", "filter", "sorted", "min", "max", "reduce", "any", "all") and cl in p.args:
                    continue
                # the variable must really change while the closure is alive: the closure is stored / returned / accumulated
                out.append((cl, hit[0], loop))
    return out


def reaching_value(cfg, name: str, use: int) -> ast.AST | None:
    """The right-hand side of the ONE plain assignment `name = <expr>` whose value `name` has at CFG node `use` on every path:
    the assignment dominates the use and no other binding of `name` can execute between it and the use.  None otherwise
    (several definitions reach, a loop variable, an augmented assignment, ...)."""
    from .cfg import header_parts

    stores: dict[int, ast.AST | None] = {}
    for n in cfg.nodes():
        st = cfg.stmt[n]
        hit = False
        for part in header_parts(st):
            if part is None:
                continue
            for x in ast.walk(part):
                if isinstance(x, ast.Name) and x.id == name and isinstance(x.ctx, (ast.Store, ast.Del)):
                    hit = True
        if not hit:
            continue
        plain = None
        if isinstance(st, ast.Assign) and len(st.targets) == 1 and isinstance(st.targets[0], ast.Name) and st.targets[0].id == name:
            plain = st.value
        elif isinstance(st, ast.AnnAssign) and isinstance(st.target, ast.Name) and st.target.id == name and st.value is not None:
            plain = st.value
        stores[n] = plain
    found = None
    for a, val in stores.items():
        if val is None or a == use or not cfg.dominates(a, use):
            continue
        if any(isinstance(x, ast.Name) and x.id == name for x in ast.walk(val)):
            continue
        if all(b in (a, use) or use not in cfg.reachable_from(b, without={a}) for b in stores):
            if found is not None:
                return None
            found = val
    return found


def reaching_values(cfg, name: str, use: int) -> list[tuple[int, ast.AST]] | None:
    """(node, right-hand side) of every plain assignment `name = <expr>` that can be the binding `name` has at CFG node `use`
    (the use is reachable from it without passing another binding of `name`).  None when a binding that is not a plain assignment
    (loop variable, augmented assignment, with-target, ...) can reach the use."""
    from .cfg import header_parts

    stores: dict[int, ast.AST | None] = {}
    for n in cfg.nodes():
        st = cfg.stmt[n]
        if not any(isinstance(x, ast.Name) and x.id == name and isinstance(x.ctx, (ast.Store, ast.Del)) for part in header_parts(st) if part is not None for x in ast.walk(part)):
            continue
        plain = None
        if isinstance(st, ast.Assign) and len(st.targets) == 1 and isinstance(st.targets[0], ast.Name) and st.targets[0].id == name:
            plain = st.value
        elif isinstance(st, ast.AnnAssign) and isinstance(st.target, ast.Name) and st.target.id == name and st.value is not None:
            plain = st.value
        stores[n] = plain
    out: list[tuple[int, ast.AST]] = []
    for a, val in stores.items():
        if a == use:
            continue
        others = set(stores) - {a, use}
        if use in cfg.reachable_from(a, without=others):
            if val is None:
                return None
            out.append((a, val))
    return out


def subclass_missing_attrs(prog, base_q: str, sub_q: str) -> dict[str, list[tuple[FuncInfo, ast.Attribute]]]:
    """Instance attributes that `base.__init__` creates and a subclass whose `__init__` does NOT chain to it never creates
    (nor provides as method / property / class attribute), together with the places in the package that read them from an
    object other than `self` - i.e. from "some function of the pipeline", which may be an instance of the subclass."""
    base, sub = prog.classes[base_q], prog.classes[sub_q]
    init_b, init_s = dict.get(base.methods, "__init__"), dict.get(sub.methods, "__init__")
    if init_b is None or init_s is None:
        return {}
    chains = any(isinstance(c, ast.Call) and isinstance(c.func, ast.Attribute) and c.func.attr == "__init__" and ("super()" in norm(c.func.value) or norm(c.func.value) == base.name) for c in ast.walk(init_s.node))
    if chains:
        return {}

    def assigned(fn: FuncInfo) -> set[str]:
        out = set()
        for n in ast.walk(fn.node):
            if isinstance(n, (ast.Assign, ast.AnnAssign, ast.AugAssign)):
                for t in (n.targets if isinstance(n, ast.Assign) else [n.target]):
                    for x in ast.walk(t):
                        if isinstance(x, ast.Attribute) and norm(x.value) == "self" and isinstance(x.ctx, ast.Store):
                            out.add(x.attr)
        return out

    provided: set[str] = set()
    for c in prog.mro(sub_q):
        provided |= set(dict.keys(c.methods)) | set(c.class_assigns) | {k for k, v in c.fields.items() if v.value is not None}
    # assignments made by helper methods that the subclass constructor calls on self
    created = assigned(init_s)
    for c in ast.walk(init_s.node):
        if isinstance(c, ast.Call) and isinstance(c.func, ast.Attribute) and norm(c.func.value) == "self":
            m = prog.find_method(sub_q, c.func.attr)
            if m is not None:
                created |= assigned(m)
    missing = assigned(init_b) - created - provided
    out: dict[str, list[tuple[FuncInfo, ast.Attribute]]] = {}
    for attr in sorted(missing):
        reads = []
        for f in prog.functions.values():
            for x in ast.walk(f.node):
                if isinstance(x, ast.Attribute) and x.attr == attr and isinstance(x.ctx, ast.Load) and norm(x.value) != "self":
                    reads.append((f, x))
        out[attr] = reads
    return out



UNPICKLABLE_CTORS = re.compile(r"^(threading\.(R?Lock|Condition|Event|Semaphore|BoundedSemaphore|Barrier|local)|_thread\.(allocate_lock|RLock)|asyncio\.(Lock|Event|Condition|Semaphore|Queue|get_event_loop|new_event_loop)|"
                               r"queue\.(Queue|LifoQueue|PriorityQueue|SimpleQueue)|open|socket\.socket|weakref\.ref|concurrent\.futures\.(ThreadPoolExecutor|ProcessPoolExecutor)|"
                               r"(R?Lock|Condition|Event|Semaphore|ThreadPoolExecutor|ProcessPoolExecutor))$")


def unpicklable_fields(prog, cls) -> list[tuple[FuncInfo, ast.AST, str, str]]:
    """(method, assignment, attribute, constructor) for every `self.<attr> = <primitive>()` in the class where the primitive is
    an object the pickle module refuses (locks, events, open files, sockets, executors, event loops) and the class's
    `__getstate__` / `__reduce__` does not leave the attribute out."""
    out = []
    gs = dict.get(cls.methods, "__getstate__")
    rd = dict.get(cls.methods, "__reduce__") or dict.get(cls.methods, "__reduce_ex__")
    for m in cls.methods.values():
        for a in ast.walk(m.node):
            tv = [(t, a.value) for t in a.targets] if isinstance(a, ast.Assign) else ([(a.target, a.value)] if isinstance(a, ast.AnnAssign) and a.value is not None else [])
            for t, v in tv:
                if not (isinstance(t, ast.Attribute) and isinstance(t.value, ast.Name) and t.value.id == "self" and isinstance(v, ast.Call)):
                    continue
                name = dotted(v.func)
                if not name:
                    continue
                full = name
                head = name.split(".")[0]
                alias = m.module.aliases.get(head)
                if alias and alias != head:
                    full = alias + name[len(head):]
                if not (UNPICKLABLE_CTORS.match(full) or UNPICKLABLE_CTORS.match(name)):
                    continue
                if rd is not None:
                    continue
                if gs is not None and re.search(rf"['\"]{re.escape(t.attr)}['\"]", norm(gs.node)):
                    continue  # __getstate__ names the attribute (drops / replaces it)
                out.append((m, a, t.attr, full))
    return out
