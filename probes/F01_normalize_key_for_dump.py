"""F01 (C01, C07): dump() with an internal axis *before* a mapped axis.

normalize_key(for_dump=True) zipped the EXT-rank key with the FULL-rank mask, so key[0]
was bounded against internal_shape[0].  Expected: dump succeeds and element reads back.
"""
import _pre, tempfile
import numpy as np
from pipefunc.map import FileArray, DictArray
from pipefunc import Pipeline, pipefunc

for cls in (FileArray, DictArray):
    with tempfile.TemporaryDirectory() as d:
        a = cls(d + "/x", shape=(3,), internal_shape=(2,), shape_mask=(False, True))
        a.dump((2,), np.array([10, 20]))          # IndexError before the fix
        assert a[1, 2] == 20, a[1, 2]
        a.dump((slice(None),), np.array([1, 2]))  # slice form
        assert a[0, 0] == 1

@pipefunc(output_name="y", mapspec="x[i] -> y[j, i]", internal_shape=(2,))
def f(x):
    return np.array([x, 10 * x])

with tempfile.TemporaryDirectory() as d:
    r = Pipeline([f]).map({"x": [1, 2, 3]}, run_folder=d, parallel=False)
    assert r["y"].output.tolist() == [[1, 2, 3], [10, 20, 30]], r["y"].output
print("F01 ok")
