"""F45 (C02/C10): a SUBCLASS of Pipeline never invalidates its cached views.

Pipeline._clear_internal_cache called clear_cached_properties(self) without `until_type`; the helper then only clears the cached
properties defined on type(self) itself - for `class MyPipeline(Pipeline)` none of Pipeline's (graph, output_to_func, defaults,
root_args, ...).  After add()/drop()/update_* the subclass instance keeps answering from the old graph: new functions are
unknown (KeyError), removed ones still run.  PipeFunc._clear_internal_cache passes its class and does not have the problem.
Usage: F45_pipeline_subclass_stale_caches.py [repo root].  Exit 0 = subclass behaves like Pipeline; exit 1 = defect present.
"""
import sys; sys.modules.setdefault("zarr", None); sys.path.insert(0, sys.argv[1] if len(sys.argv) > 1 else "/repo")
from pipefunc import Pipeline, pipefunc


class MyPipeline(Pipeline):
    pass


def build(cls):
    @pipefunc(output_name="c")
    def f(a, b=1):
        return a + b

    @pipefunc(output_name="d")
    def g(c, z=5):
        return c * z

    p = cls([f])
    _ = (p.graph, p.defaults, p.output_to_func, p.topological_generations)  # populate the cached views
    p.add(g)
    return p


bad = []
want = build(Pipeline)("d", a=1)
try:
    got = build(MyPipeline)("d", a=1)
    if got != want:
        bad.append(f"subclass returns {got!r}, Pipeline returns {want!r}")
except Exception as e:  # noqa: BLE001
    bad.append(f"Pipeline returns {want!r}; the subclass raises {type(e).__name__}: {e}")
print("\n".join(bad) or "ok: a Pipeline subclass invalidates its cached views like Pipeline")
sys.exit(1 if bad else 0)
