"""F63 (C17): a projected sweep as an operand of product() must contribute only the dimensions it enumerates."""
import sys

sys.modules.setdefault("zarr", None)
sys.path.insert(0, sys.argv[1] if len(sys.argv) > 1 else "/repo")
from pipefunc.sweep import Sweep  # noqa: E402

base = Sweep({"a": [1, 2], "b": [3, 4]})
only_a = base.filtered_sweep(("a",))
assert only_a.list() == [{"a": 1}, {"a": 2}]
right = Sweep({"b": [7, 8, 9]}).product(only_a)
expected = [{"b": b, "a": a} for b in (7, 8, 9) for a in (1, 2)]
assert right.list() == expected, f"projected sweep as right operand: {right.list()}"
assert len(right) == 6
left = only_a.product(Sweep({"b": [7, 8, 9]}))
assert left.list() == [{"a": a, "b": b} for a in (1, 2) for b in (7, 8, 9)], left.list()
zipped = Sweep({"x": [1, 2], "y": [3, 4], "z": [5, 6]}, dims=[("x", "y"), "z"]).filtered_sweep(("x", "z"))
assert zipped.list() == [{"x": 1, "z": 5}, {"x": 1, "z": 6}, {"x": 2, "z": 5}, {"x": 2, "z": 6}], zipped.list()
assert Sweep({"y": [0]}).product(zipped).list() == [{"y": 0, **c} for c in zipped.list()]
print("OK: a projection hands on only the items it enumerates")
