"""F62 (C05): with a run folder that is a symbolic link, cleanup=True cleans nothing and map returns the PREVIOUS run's results.

_cleanup_run_folder called shutil.rmtree(run_folder, ignore_errors=True).  rmtree refuses to operate on a symbolic link and
ignore_errors=True swallows the refusal: the folder keeps every file of the earlier run.  The new run (cleanup=True is the
default) then finds all elements "already stored" and returns the old values - for different inputs.  Scratch directories reached
through a symlink are common on clusters.
Usage: F62_symlinked_run_folder_not_cleaned.py [repo root].  Exit 0 = a fresh run into a symlinked folder computes its own inputs.
"""
import os
import sys; sys.modules.setdefault("zarr", None); sys.path.insert(0, sys.argv[1] if len(sys.argv) > 1 else "/repo")
import tempfile
from pathlib import Path

from pipefunc import Pipeline, pipefunc


@pipefunc("y", mapspec="x[i] -> y[i]")
def f(x):
    return 2 * x


@pipefunc("s")
def total(y):
    return int(sum(y))


p = Pipeline([f, total])
base = Path(tempfile.mkdtemp())
real, link = base / "real", base / "link"
real.mkdir()
os.symlink(real, link)
bad = []
for storage in ("file_array", "dict"):
    first = p.map({"x": [1, 2, 3]}, run_folder=link, parallel=False, storage=storage)
    second = p.map({"x": [10, 20, 30]}, run_folder=link, parallel=False, storage=storage)  # cleanup=True is the default
    got = (second["y"].output.tolist(), second["s"].output)
    if got != ([20, 40, 60], 120):
        bad.append(f"storage={storage}: the second run (x=[10, 20, 30]) into the symlinked folder returns {got}; the first returned {(first['y'].output.tolist(), first['s'].output)}")
    if not link.is_symlink() or not real.is_dir():
        bad.append(f"storage={storage}: the link or its target is gone after the clean-up")
print("\n".join(bad) or "ok: cleanup=True also empties a run folder that is reached through a symbolic link")
sys.exit(1 if bad else 0)
