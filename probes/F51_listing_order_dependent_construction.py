"""F51 (C02): whether a pipeline can be constructed depends on the order in which its functions are listed.

Pipeline.__init__ added the functions one by one and validated the partial pipeline after every addition.  Two consumers that
declare different defaults for a parameter `c` are fine when `c` is the OUTPUT of a third function (the defaults are never used) -
but only if that producer is listed before the second consumer: [f(c=1), g(c=2), h -> c] raises "Inconsistent default values",
[h, f, g] constructs and computes.  The value of a pipeline must not depend on the listing order.
Usage: F51_listing_order_dependent_construction.py [repo root].  Exit 0 = every listing order behaves the same.
"""
import itertools
import sys; sys.modules.setdefault("zarr", None); sys.path.insert(0, sys.argv[1] if len(sys.argv) > 1 else "/repo")
from pipefunc import Pipeline, pipefunc


@pipefunc("y")
def f(c=1):
    return c


@pipefunc("z")
def g(c=2):
    return 2 * c


@pipefunc("c")
def h(x):
    return x


outcomes = {}
for order in itertools.permutations([f, g, h]):
    names = tuple(o.output_name for o in order)
    try:
        p = Pipeline([o.copy() for o in order])
        outcomes[names] = (p("y", x=3), p("z", x=3))
    except Exception as e:  # noqa: BLE001
        outcomes[names] = f"{type(e).__name__}: {str(e)[:60]}"
bad = []
if len(set(map(str, outcomes.values()))) != 1:
    bad = [f"{k}: {v}" for k, v in outcomes.items()]
# a genuinely inconsistent pair of defaults (c is a root argument) is still refused, in every order
for order in itertools.permutations([f, g]):
    try:
        Pipeline([o.copy() for o in order])
        bad.append(f"{[o.output_name for o in order]}: inconsistent defaults of the root argument c are accepted")
    except ValueError:
        pass
print("\n".join(bad) or "ok: construction does not depend on the listing order")
sys.exit(1 if bad else 0)
