"""F20 (C14): LRUCache.put of a resident key appended it to the queue again (later KeyError);
F21 (C14): LRUCache.get / HybridCache.get tested membership outside the lock;
F22 (C14): DiskCache._evict_if_needed re-selected a file it had just unlinked;
F23 (C14): HybridCache._expire divided by sum(durations) == 0.
"""
import _pre, tempfile, inspect, ast, textwrap
from pipefunc.cache import LRUCache, HybridCache, DiskCache

c = LRUCache(max_size=2, shared=False)
c.put("a", 1); c.put("a", 2); c.put("b", 3); c.put("c", 4)      # KeyError before F20
assert len(c) <= 2 and c.get("c") == 4 and c.get("b") == 3 and c.get("a") is None
assert sorted(c._cache_queue) == sorted(c._cache_dict)

h = HybridCache(max_size=1, shared=False)
h.put("a", 1, 0.0); h.put("b", 2, 0.0)                           # ZeroDivisionError before F23
assert len(h) == 1 and h.get("b") == 2

with tempfile.TemporaryDirectory() as d:
    big = DiskCache(d, max_size=None, with_lru_cache=False)
    for i in range(4):
        big.put(i, i)
    small = DiskCache(d, max_size=1, with_lru_cache=False)
    small.put(99, 99)                                             # FileNotFoundError before F22
    assert len(small) == 1 and small.get(99) == 99

# F21: the membership test and the subscript must be under one lock acquisition
for cls in (LRUCache, HybridCache):
    fn = ast.parse(textwrap.dedent(inspect.getsource(cls.get))).body[0]
    first = [s for s in fn.body if not isinstance(s, ast.Expr)][0]
    assert isinstance(first, ast.With), f"{cls.__name__}.get tests membership outside the lock"
print("F20-F23 ok")
