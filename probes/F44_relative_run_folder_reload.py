"""F44 (C04): a run written with a RELATIVE run_folder cannot be reloaded from another working directory.

run_info.json records the paths of the dumped inputs / defaults and the run folder as the strings the writing process used.
RunInfo.load(F) read the inputs from those strings (relative to the CURRENT working directory) and returned a RunInfo whose
run_folder was the recorded string, so load_outputs / init_store looked for the outputs in the wrong place as well - although
the caller passes the (absolute) folder explicitly.  The same happens after the folder was moved.
Usage: F44_relative_run_folder_reload.py [repo root].  Exit 0 = values reload from any working directory; exit 1 = defect present.
"""
import os
import sys; sys.modules.setdefault("zarr", None); sys.path.insert(0, sys.argv[1] if len(sys.argv) > 1 else "/repo")
import shutil
import tempfile

from pipefunc import Pipeline, pipefunc
from pipefunc.map import load_outputs
from pipefunc.map._run_info import RunInfo


@pipefunc(output_name="y", mapspec="x[i] -> y[i]")
def double(x, offset=1):
    return 2 * x + offset


bad = []
base = tempfile.mkdtemp()
cwd = os.getcwd()
os.chdir(base)
try:
    Pipeline([double]).map({"x": [1, 2, 3]}, run_folder="run", parallel=False, storage="file_array")
finally:
    os.chdir(cwd)
moved = os.path.join(tempfile.mkdtemp(), "elsewhere")
shutil.copytree(os.path.join(base, "run"), moved)
for label, folder in (("other working directory", os.path.join(base, "run")), ("moved copy", moved)):
    try:
        ri = RunInfo.load(folder)
        got = (ri.inputs, ri.defaults, load_outputs("y", run_folder=folder).tolist())
    except Exception as e:  # noqa: BLE001
        bad.append(f"{label}: {type(e).__name__}: {e}")
        continue
    if got != ({"x": [1, 2, 3]}, {"offset": 1}, [3, 5, 7]):
        bad.append(f"{label}: reloaded {got}")
print("\n".join(bad) or "ok: inputs, defaults and outputs reload from the folder that is asked for")
sys.exit(1 if bad else 0)
