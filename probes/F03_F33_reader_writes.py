"""F03 (C12/C04/C05): RunInfo.load re-dumped run_info.json, inputs and defaults (reader with a write effect);
F33 (C12): an unknown storage name was only detected after run_info.json had been rewritten.

Expected: load_outputs and a *rejected* cleanup=False request leave every file of the folder untouched.
"""
import _pre, tempfile, os, time
from pathlib import Path
from pipefunc import Pipeline, pipefunc
from pipefunc.map import load_outputs

@pipefunc(output_name="y", mapspec="x[i] -> y[i]")
def f(x, q={1, 8}):
    return x + len(q)

def snap(d):
    return {str(p): (p.stat().st_mtime_ns, p.stat().st_ino, p.read_bytes()) for p in sorted(Path(d).rglob("*")) if p.is_file()}

with tempfile.TemporaryDirectory() as d:
    p = Pipeline([f])
    big = set(range(100)); big -= set(range(100)) - {1, 8}
    p.map({"x": [1, 2, 3], "q": big}, run_folder=d, parallel=False)
    before = snap(d)
    time.sleep(0.01)
    assert load_outputs("y", run_folder=d).tolist() == [3, 4, 5]
    assert snap(d) == before, "load_outputs modified the run folder"
    # rejected request 1: different inputs
    try:
        p.map({"x": [1, 2, 4], "q": big}, run_folder=d, parallel=False, cleanup=False)
    except ValueError as e:
        assert "do not match" in str(e)
    else:
        raise AssertionError("expected rejection")
    assert snap(d) == before, "rejected request modified the run folder"
    # rejected request 2: unknown storage
    try:
        p.map({"x": [1, 2, 3], "q": big}, run_folder=d, parallel=False, cleanup=False, storage="bogus")
    except ValueError as e:
        assert "bogus" in str(e)
    else:
        raise AssertionError("expected rejection")
    assert snap(d) == before, "unknown storage request modified the run folder"
    # a valid resume still works and still records the run
    r = p.map({"x": [1, 2, 3], "q": big}, run_folder=d, parallel=False, cleanup=False)
    assert r["y"].output.tolist() == [3, 4, 5]
print("F03/F33 ok")

# F33b: every name of a per-output storage dict is validated up front (any() used to stop at the first hit)
with tempfile.TemporaryDirectory() as d:
    p = Pipeline([f])
    p.map({"x": [1, 2, 3]}, run_folder=d, parallel=False)
    before = snap(d)
    try:
        p.map({"x": [1, 2, 3]}, run_folder=d, parallel=False, cleanup=False, storage={"": "file_array", "y": "bogus"})
    except ValueError as e:
        assert "bogus" in str(e)
    else:
        raise AssertionError("expected rejection")
    assert snap(d) == before, "unknown per-output storage request modified the run folder"
print("F33b ok")
