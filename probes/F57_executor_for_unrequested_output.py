"""F57 (C11): map(output_names=S) raises KeyError when the executor dict names an output outside S.

prepare_run restricts the pipeline to what S needs and builds the store of the restricted pipeline; _check_parallel then looks
up `store[name]` for every key of the `executor` dict.  A per-output executor configuration that is valid for the full run
(`executor={"w": ex1, "": ex2}`) makes every partial request that does not compute `w` fail with KeyError('w').
Usage: F57_executor_for_unrequested_output.py [repo root].  Exit 0 = the partial request succeeds with the full run's values.
"""
import sys; sys.modules.setdefault("zarr", None); sys.path.insert(0, sys.argv[1] if len(sys.argv) > 1 else "/repo")
from concurrent.futures import ThreadPoolExecutor
from pipefunc import Pipeline, pipefunc


@pipefunc("y", mapspec="x[i] -> y[i]")
def f(x):
    return x


@pipefunc("z", mapspec="y[i] -> z[i]")
def g(y):
    return 2 * y


@pipefunc("w", mapspec="x[i] -> w[i]")
def h(x):
    return -x


p = Pipeline([f, g, h])
bad = []
with ThreadPoolExecutor() as a, ThreadPoolExecutor() as b:
    full = p.map({"x": [1, 2]}, executor={"w": a, "": b}, storage="dict")
    for req in ({"z"}, {"y"}, {"w"}):
        try:
            part = p.map({"x": [1, 2]}, executor={"w": a, "": b}, storage="dict", output_names=req)
            for name in req:
                if part[name].output.tolist() != full[name].output.tolist():
                    bad.append(f"output_names={req}: {name} = {part[name].output.tolist()}, the full run gives {full[name].output.tolist()}")
        except Exception as e:  # noqa: BLE001
            bad.append(f"output_names={req}: {type(e).__name__}: {e!r}")
print("\n".join(bad) or "ok: a partial request accepts the executor configuration of the full run")
sys.exit(1 if bad else 0)
