"""Shared preamble for reproduction probes (NOT part of any check: probes execute pipefunc).

zarr 3 is installed here but pipefunc needs zarr 2; hide it so `pipefunc.map` imports.
"""
import sys, warnings
sys.modules.setdefault("zarr", None)
warnings.filterwarnings("ignore")
sys.path.insert(0, "/repo")
