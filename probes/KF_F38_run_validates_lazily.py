"""F38 (C12, known finding): pipeline(...) / Pipeline.run detect missing and surplus keyword arguments only AFTER user
functions have run (missing: when the resolution reaches the parameter; surplus: after the requested output was computed).
C12 asks for the exception "at the start of run/map ... before any user function is invoked"; map() does that, run() does not.
Exit 1 = the defect is present (user code ran before the rejection); exit 0 = rejected up front.
"""
import _pre  # noqa: F401
import sys

from pipefunc import Pipeline, pipefunc

calls = []


@pipefunc(output_name="b")
def f(a):
    calls.append("f")
    return a + 1


@pipefunc(output_name="c")
def g(b, x):
    calls.append("g")
    return b + x


p = Pipeline([f, g])
bad = 0
for kw in ({"a": 1, "x": 2, "typo": 3}, {"a": 1}):
    calls.clear()
    try:
        p("c", **kw)
    except Exception as e:  # noqa: BLE001
        print(type(e).__name__, str(e)[:70], "| user calls before the error:", calls)
        bad += bool(calls)
    else:
        print("no error for", kw)
        bad += 1
sys.exit(1 if bad else 0)
