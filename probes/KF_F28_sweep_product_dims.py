"""KNOWN FINDING F28 (C17): Sweep.product with dims=None on the receiver never reads the operands' dims,
so a zipped operand is expanded to the full Cartesian product (8 combinations instead of 4).
Not repaired: tests/test_sweep.py::test_sweep_product pins this behaviour (it multiplies with an operand
whose zipped group has unequal lengths and expects the full product).  Exits 0 while the defect is present.
"""
import _pre
from pipefunc.sweep import Sweep
a = Sweep({"a": [1, 2]})
z = Sweep({"x": [1, 2], "y": [3, 4]}, dims=[("x", "y")])
assert len(z.list()) == 2
got = a.product(z).list()
want = [{"a": i, "x": x, "y": y} for i in (1, 2) for x, y in ((1, 3), (2, 4))]
print("F28 still present" if got != want else "F28 no longer reproduces", len(got))
