"""F30 (C20): combine_max compared wall times as strings ('2:00:00' > '10:00:00');
F31 (C20): Resources.update stored unknown keys into the receiver's extra_args dict.
"""
import _pre
from pipefunc.resources import Resources

r = Resources.combine_max([Resources(time="2:00:00"), Resources(time="10:00:00")])
assert r.time == "10:00:00", r.time
r = Resources.combine_max([Resources(time="1:00:00:00"), Resources(time="30:00:00")])
assert r.time == "30:00:00", r.time       # 1 day < 30 hours
r = Resources.combine_max([Resources(time="59:59"), Resources(time="1:00:00")])
assert r.time == "1:00:00", r.time
r = Resources.combine_max([Resources(time="90:00"), Resources(time="1:00:00")])
assert r.time == "90:00", r.time

a = Resources(cpus=1, extra_args={"qos": "x"})
b = a.update(constraint="gpu")
assert b.extra_args == {"qos": "x", "constraint": "gpu"}
assert a.extra_args == {"qos": "x"}, a.extra_args
print("F30/F31 ok")
