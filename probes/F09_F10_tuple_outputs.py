"""F09 (C10): simplified_pipeline sorted PipeFuncs by raw output_name (str vs tuple -> TypeError).
F10 (C10/C02): _update_all_results wrote only the tuple key when the tuple itself was requested,
so NestedPipeFunc wrappers (which index by single names) raised KeyError and full_output lacked names.
"""
import _pre
from pipefunc import Pipeline, pipefunc

@pipefunc(output_name="a")
def fa(x): return x + 1
@pipefunc(output_name=("b", "c"))
def fbc(a): return a, 2 * a
@pipefunc(output_name="d")
def fd(b, c, x): return b + c + x

p = Pipeline([fa, fbc, fd])
assert p("d", x=1) == 2 + 4 + 1
s = p.simplified_pipeline("d")            # TypeError before the F09 fix
assert s("d", x=1) == 7

@pipefunc(output_name="a")
def ga(x): return x + 1
@pipefunc(output_name=("b", "c"))
def gbc(a): return a, 2 * a
q = Pipeline([ga, gbc])
full = q.run(("b", "c"), full_output=True, kwargs={"x": 1})
assert full["b"] == 2 and full["c"] == 4, full          # missing before the F10 fix
q2 = Pipeline([ga, gbc])
nested = q2.nest_funcs("*")
assert q2(nested.output_name, x=1) is not None           # KeyError before the F10 fix
print("F09/F10 ok")
