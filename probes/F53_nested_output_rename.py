"""F53 (C10): renaming (or scoping) the output of a NestedPipeFunc makes every call raise KeyError.

NestedPipeFunc.func picked the results of its internal pipeline by `self.output_name` - the RENAMED name - while the internal
pipeline knows its outputs under their own names.  nest_funcs followed by update_renames({'d': 'dd'}) (on the pipeline) or by update_scope(..., outputs='*') constructs fine and then fails with KeyError: 'dd' at the first call / map.
Usage: F53_nested_output_rename.py [repo root].  Exit 0 = the renamed nested function computes what the original pipeline does.
"""
import sys; sys.modules.setdefault("zarr", None); sys.path.insert(0, sys.argv[1] if len(sys.argv) > 1 else "/repo")
from pipefunc import Pipeline, pipefunc


@pipefunc("c")
def f(a, b):
    return a + b


@pipefunc(("d", "d2"))
def g(c):
    return 2 * c, 3 * c


@pipefunc("e")
def h(d, d2, x=1):
    return d + d2 + x


def nested():
    p = Pipeline([f, g, h])
    p.nest_funcs({"c", ("d", "d2")}, new_output_name=("d", "d2"))
    return p


want = Pipeline([f, g, h])("e", a=1, b=2)
bad = []
for what, mutate, out, kw in (
    ("pipeline-level rename", lambda p: p.update_renames({"d2": "dd2"}), "e", {"a": 1, "b": 2}),
    ("scope on the outputs", lambda p: p.update_scope("s", outputs="*"), "s.e", {"a": 1, "b": 2}),
):
    p = nested()
    try:
        mutate(p)
        got = p(out, **kw)
        if got != want:
            bad.append(f"{what}: {got!r} instead of {want!r}")
    except Exception as e:  # noqa: BLE001
        bad.append(f"{what}: {type(e).__name__}: {str(e)[:80]}")
print("\n".join(bad) or "ok: a NestedPipeFunc whose output was renamed computes the same values")
sys.exit(1 if bad else 0)
