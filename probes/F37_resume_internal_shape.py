"""F37 (C05): a run whose function declares `internal_shape` (or that relies on defaults for it) cannot be resumed.

RunInfo.create stores the CONSTRUCTED internal shapes (`_construct_internal_shapes(user argument, pipeline)`, which adds the
functions' own `internal_shape`), but the cleanup=False gate compared the RAW user argument with the stored value - and computed
the shapes it compares from the raw argument too.  Re-running the very same map with cleanup=False then raises
"Internal shapes do not match previous run" instead of resuming.
Exit 0 = the identical re-run resumes and returns the same result; exit 1 = the defect is present.
"""
import _pre  # noqa: F401
import sys
import tempfile

import numpy as np

from pipefunc import Pipeline, pipefunc

calls = []


@pipefunc(output_name="y", mapspec="... -> y[i]", internal_shape=(3,))
def gen(n: int = 3):
    calls.append("gen")
    return list(range(n))


@pipefunc(output_name="z", mapspec="y[i] -> z[i]")
def double(y):
    calls.append(("double", y))
    return 2 * y


if __name__ == "__main__":
    p = Pipeline([gen, double])
    with tempfile.TemporaryDirectory() as d:
        first = p.map({}, run_folder=d, parallel=False, storage="file_array")["z"].output.tolist()
        n_first = len(calls)
        try:
            second = p.map({}, run_folder=d, parallel=False, storage="file_array", cleanup=False)["z"].output.tolist()
        except ValueError as e:
            print("resume raised:", e)
            sys.exit(1)
        print(first, second, "calls in the resumed run:", len(calls) - n_first)
        sys.exit(0 if first == second and len(calls) == n_first else 1)
