"""F39 (C12): renaming a parameter onto the name of another parameter of the same function is accepted.

PipeFunc(f(a, b), renames={"a": "b"}) has parameters ('b', 'b'); the pipeline is constructed and the failure only shows
inside the user function call (TypeError: missing argument).  Exit 0 = rejected at construction; exit 1 = accepted.
"""
import _pre  # noqa: F401
import sys

from pipefunc import PipeFunc, Pipeline


def f(a, b):
    return (a, b)


for how in ("constructor", "update_renames"):
    try:
        if how == "constructor":
            pf = PipeFunc(f, "c", renames={"a": "b"})
        else:
            pf = PipeFunc(f, "c")
            pf.update_renames({"a": "b"})
        Pipeline([pf])
    except ValueError as e:
        print(how, "rejected:", str(e)[:90])
        continue
    print(how, "accepted a function with parameters", pf.parameters)
    sys.exit(1)
sys.exit(0)
