"""F50 (C02): arg_combinations lists combinations that the pipeline refuses.

_compute_arg_mapping named a producer in a combination by ALL of its output names.  For a multi-output function of which the
requested output consumes only some elements - `a, b = f(x)`, `c = g(a)` - arg_combinations('c') contains ('a', 'b'); calling
pipeline('c', a=..., b=...) raises UnusedParametersError for `b`, and the genuine combination ('a',) is not listed.
Usage: F50_arg_combinations_unconsumed_sibling.py [repo root].  Exit 0 = every listed combination is accepted and agrees.
"""
import sys; sys.modules.setdefault("zarr", None); sys.path.insert(0, sys.argv[1] if len(sys.argv) > 1 else "/repo")
from pipefunc import Pipeline, pipefunc


@pipefunc(("a", "b"))
def f(x):
    return x, 2 * x


@pipefunc("c")
def g(a):
    return a + 1


@pipefunc("d")
def h(b, c):
    return b + c


p = Pipeline([f, g, h])
bad = []
for out in ("c", "d"):
    want = p(out, x=1)
    for combo in sorted(p.arg_combinations(out)):
        full = p.run(out, kwargs={"x": 1}, full_output=True)
        kw = {k: full[k] for k in combo}
        try:
            got = p(out, **kw)
            if got != want:
                bad.append(f"{out}: combination {combo} gives {got!r}, the root arguments give {want!r}")
        except Exception as e:  # noqa: BLE001
            bad.append(f"{out}: listed combination {combo} is refused: {type(e).__name__}: {str(e)[:80]}")
    if out == "c" and ("a",) not in p.arg_combinations(out):
        bad.append("c: the combination ('a',) - all that g needs - is not listed")
print("\n".join(bad) or "ok: every listed argument combination is accepted and yields the value of the root-argument call")
sys.exit(1 if bad else 0)
