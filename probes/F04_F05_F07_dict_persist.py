"""F04 (C04/C05): DictArray.persist pickled the manager DictProxy of a SharedMemoryDictArray;
F05 (C03): DictArray.load rebound the proxy to a process-local dict on resume;
F07 (C05): DictArray.load tested folder.exists() and then read folder/dict_array.cloudpickle.
"""
import _pre, tempfile, subprocess, sys, os
from pathlib import Path
from pipefunc import Pipeline, pipefunc
from pipefunc.map import load_outputs, SharedMemoryDictArray, DictArray

@pipefunc(output_name="y", mapspec="x[i] -> y[i]")
def f(x):
    return 2 * x

with tempfile.TemporaryDirectory() as d:
    p = Pipeline([f])
    p.map({"x": [1, 2, 3]}, run_folder=d, parallel=False, storage="shared_memory_dict")
    code = ("import sys; sys.modules['zarr']=None; sys.path.insert(0,'/repo');"
            "from pipefunc.map import load_outputs;"
            f"print(load_outputs('y', run_folder={d!r}).tolist())")
    out = subprocess.run([sys.executable, "-c", code], capture_output=True, text=True)
    assert out.stdout.strip().endswith("[2, 4, 6]"), (out.stdout, out.stderr[-600:])   # F04
    # same-process resume keeps a manager proxy as backing store (F05)
    r = p.map({"x": [1, 2, 3]}, run_folder=d, parallel=False, storage="shared_memory_dict", cleanup=False)
    assert r["y"].output.tolist() == [2, 4, 6]
    arr = r["y"].store
    assert isinstance(arr, SharedMemoryDictArray)
    assert type(arr._dict).__name__ == "DictProxy", type(arr._dict)

with tempfile.TemporaryDirectory() as d:
    folder = Path(d) / "arr"
    folder.mkdir()                       # folder exists, persisted file does not (crash before persist)
    a = DictArray(folder, shape=(2,))    # FileNotFoundError before the fix (F07)
    assert a.mask_linear() == [True, True]
print("F04/F05/F07 ok")
