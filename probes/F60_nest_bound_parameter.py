"""F60 (C10): nest_funcs over a function with a bound parameter makes the bound parameter a REQUIRED argument.

NestedPipeFunc derived its parameters as "all inputs of the inner functions minus all their outputs" - including a parameter that
the one inner function taking it has BOUND.  The internal pipeline never asks for it (the bound value wins), the outer pipeline
does: `c = f(a, b)` with b bound to 2, `d = g(c)`, nest {c, d}, then pipeline("d", a=1) raises "Missing value for argument `b`",
where the un-nested pipeline returns 6.
Usage: F60_nest_bound_parameter.py [repo root].  Exit 0 = the nested pipeline computes what the original computes.
"""
import sys; sys.modules.setdefault("zarr", None); sys.path.insert(0, sys.argv[1] if len(sys.argv) > 1 else "/repo")
from pipefunc import Pipeline, pipefunc


@pipefunc("c", bound={"b": 2})
def f(a, b):
    return a + b


@pipefunc("d")
def g(c):
    return 2 * c


@pipefunc("e")
def h(d, x=1):
    return d + x


bad = []
want = Pipeline([f, g, h])("e", a=1)
p = Pipeline([f, g, h])
p.nest_funcs({"c", "d"}, new_output_name="d")
try:
    got = p("e", a=1)
    if got != want:
        bad.append(f"nested: {got!r}, original: {want!r}")
    if "b" in p.topological_generations.root_args:
        bad.append("the bound parameter `b` is listed as a root argument of the nested pipeline")
except Exception as e:  # noqa: BLE001
    bad.append(f"the nested pipeline raises {type(e).__name__}: {str(e)[:80]} (the original returns {want!r})")
print("\n".join(bad) or "ok: nesting a function with a bound parameter keeps the pipeline's values and inputs")
sys.exit(1 if bad else 0)
