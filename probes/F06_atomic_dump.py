"""F06 (C05): _utils.dump and RunInfo.dump wrote in place (open('wb'/'w') + dump).

A death between open() and the end of the write leaves an empty/torn file that the resume
treats as a completed element (FileArray: file presence == done) or cannot parse (run_info.json).
Expected: the destination either does not exist or holds a complete previous value.
"""
import _pre, tempfile, json
from pathlib import Path
from unittest import mock
import cloudpickle
from pipefunc._utils import dump, load
from pipefunc import Pipeline, pipefunc

class Die(BaseException): ...

def torn(obj, f, *a, **k):
    f.write(b"\x80\x05")       # a torn prefix
    f.flush()
    raise Die

with tempfile.TemporaryDirectory() as d:
    target = Path(d) / "__0__.pickle"
    with mock.patch.object(cloudpickle, "dump", torn):
        try:
            dump({"a": 1}, target)
        except Die:
            pass
    assert not target.exists(), "torn element file published under its final name"
    dump({"a": 1}, target)
    with mock.patch.object(cloudpickle, "dump", torn):
        try:
            dump({"a": 2}, target)
        except Die:
            pass
    assert load(target) == {"a": 1}, "complete previous value destroyed by a torn rewrite"

    @pipefunc(output_name="y", mapspec="x[i] -> y[i]")
    def f(x):
        return x
    run = Path(d) / "run"
    Pipeline([f]).map({"x": [1, 2]}, run_folder=run, parallel=False)
    good = (run / "run_info.json").read_text()
    def torn_json(data, fh, **k):
        fh.write('{"shapes": ')
        fh.flush()
        raise Die
    with mock.patch.object(json, "dump", torn_json):
        try:
            Pipeline([f]).map({"x": [1, 2]}, run_folder=run, parallel=False, cleanup=False)
        except Die:
            pass
    assert (run / "run_info.json").read_text() == good, "run_info.json torn"
    r = Pipeline([f]).map({"x": [1, 2]}, run_folder=run, parallel=False, cleanup=False)
    assert r["y"].output.tolist() == [1, 2]
print("F06 ok")
