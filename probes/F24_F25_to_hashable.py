"""F24 (C15): sorted() on caller data raised TypeError for mixed-type sets / dict keys;
F25 (C15): the ndarray branch embedded unconverted elements (object arrays of lists -> unhashable key).
"""
import _pre
import numpy as np
from collections import Counter, defaultdict
from pipefunc.cache import to_hashable

for v, w in [({1, "a"}, {"a", 1}), ({1: 2, "a": 3}, {"a": 3, 1: 2}),
             (Counter({1: 2, "a": 3}), Counter({"a": 3, 1: 2})),
             (defaultdict(int, {1: 2, "a": 3}), defaultdict(int, {"a": 3, 1: 2})),
             ({(1, 2), "x", None}, {None, "x", (1, 2)})]:
    k1, k2 = to_hashable(v), to_hashable(w)          # TypeError before F24
    hash(k1)
    assert k1 == k2, (k1, k2)
assert to_hashable({1, "a"}) != to_hashable({1, "b"})

a = np.empty(2, dtype=object); a[0] = [1, 2]; a[1] = {"k": [3]}
k = to_hashable(a)
hash(k)                                               # TypeError before F25
b = np.empty(2, dtype=object); b[0] = [1, 2]; b[1] = {"k": [4]}
assert to_hashable(b) != k
assert to_hashable(np.array([1, 2])) == to_hashable(np.array([1, 2]))
assert to_hashable(np.array([1, 2]))[2][2] == (1, 2)
print("F24/F25 ok")
