"""F32 (C11): subpipeline kept only functions that descend from a supplied input, so needed
functions without supplied ancestors (nullary, all-defaults, all-bound) were dropped and a
computable request was refused.
"""
import _pre
from pipefunc import Pipeline, pipefunc

calls = []
@pipefunc(output_name="n")
def fn(): calls.append("n"); return 10
@pipefunc(output_name="g")
def fg(k=5): calls.append("g"); return k
@pipefunc(output_name="c")
def fc(a): calls.append("c"); return a + 1
@pipefunc(output_name="m")
def fm(c, n, g): calls.append("m"); return c + n + g
@pipefunc(output_name="other")
def fo(a): calls.append("other"); return -a

p = Pipeline([fn, fg, fc, fm, fo])
sub = p.subpipeline({"a"}, {"m"})                       # ValueError before the fix
assert {f.output_name for f in sub.functions} == {"n", "g", "c", "m"}
r = p.map({"a": 1}, output_names={"m"}, parallel=False, storage="dict")
assert r["m"].output == 2 + 10 + 5 and "other" not in calls
calls.clear()
r = p.map({"c": 7}, output_names={"m"}, auto_subpipeline=True, parallel=False, storage="dict")
assert r["m"].output == 7 + 10 + 5 and sorted(calls) == ["g", "m", "n"], calls
try:
    p.subpipeline({"k"}, {"m"})
except ValueError as e:
    assert "a" in str(e)
else:
    raise AssertionError("uncomputable request accepted")
print("F32 ok")
