"""F11 (C08): MapSpec._is_generated took part in ==, but is not printed: from_string(str(m)) != m.
F12 (C08): ':' was only rejected in the first output.
"""
import _pre
from pipefunc.map import MapSpec
from pipefunc.map._mapspec import ArraySpec

m = MapSpec((ArraySpec("a", ("i",)),), (ArraySpec("b", ("i",)),), _is_generated=True)
assert MapSpec.from_string(str(m)) == m                                   # F11

for bad in ["a[i] -> b[i], c[i, :]", "a[i] -> b[i], c[:, i]"]:           # F12
    try:
        MapSpec.from_string(bad)
    except ValueError:
        pass
    else:
        raise AssertionError(f"accepted {bad!r}")

# F13 (unanchored parsing) is NOT treated as a defect: the suite pins lenient parsing
# (tests/test_pipeline_mapspec.py::test_combining_mapspecs passes a mapspec wrapped in stray quotes).
for good in ["a[i], b[j] -> c[i, j]", " a[ i ] ,b[ : , j] ->c[i,j] ", "... -> v[j]", "x.a[i] -> y.b[i]",
             "a[i, j], b[i, j], c[k] -> q[i, j, k]", "a[i] -> b[i], c[i]"]:
    ms = MapSpec.from_string(good)
    assert MapSpec.from_string(str(ms)) == ms
print("F11/F12 ok")
