"""F41 (C01): the `internal_shapes` given to map() do not take precedence for a MULTI-output function.

Documented (Pipeline.map): "If a PipeFunc has an internal_shape argument *and* it is provided here, the provided value is used."
_construct_internal_shapes protects the caller's entries with `if f.output_name in internal_shapes`, which for a function with
several outputs asks for the TUPLE of names - never a key - and then overwrites the entry of every single name with the declared
shape: the outputs are allocated with the declared size and a longer result is silently truncated.
Usage: F41_internal_shapes_tuple_output.py [repo root].  Exit 0 = the caller's shapes are used; exit 1 = the defect is present.
"""
import sys; sys.modules.setdefault("zarr", None); sys.path.insert(0, sys.argv[1] if len(sys.argv) > 1 else "/repo")
from pipefunc import Pipeline, pipefunc


@pipefunc(output_name=("a", "b"), internal_shape=(2,), mapspec="... -> a[i], b[i]")
def gen(n: int):
    return list(range(n)), list(range(n))


@pipefunc(output_name="c", mapspec="a[i], b[i] -> c[i]")
def add(a, b):
    return a + b


@pipefunc(output_name="a1", internal_shape=(2,), mapspec="... -> a1[i]")
def gen1(n: int):
    return list(range(n))


@pipefunc(output_name="c1", mapspec="a1[i] -> c1[i]")
def twice(a1):
    return 2 * a1


bad = []
single = Pipeline([gen1, twice]).map({"n": 4}, internal_shapes={"a1": (4,)}, parallel=False, storage="dict")["c1"].output.tolist()
if single != [0, 2, 4, 6]:
    bad.append(f"single output: {single}")
multi = Pipeline([gen, add]).map({"n": 4}, internal_shapes={"a": (4,), "b": (4,)}, parallel=False, storage="dict")["c"].output.tolist()
if multi != [0, 2, 4, 6]:
    bad.append(f"two outputs: c = {multi}, expected [0, 2, 4, 6] (the declared internal_shape=(2,) overrode internal_shapes={{'a': (4,), 'b': (4,)}})")
print("\n".join(bad) or "ok: the internal_shapes passed to map() are used for single- and multi-output functions")
sys.exit(1 if bad else 0)
