"""F18 (C10): NestedPipeFunc.copy dropped defaults/bound set through update_defaults/update_bound.
Pipeline.add copies every function, so adding the nested function to a pipeline lost them.
"""
import _pre
from pipefunc import NestedPipeFunc, Pipeline, pipefunc

@pipefunc(output_name="c")
def fc(a, b): return a + b
@pipefunc(output_name="d")
def fd(c, x): return c * x

n = NestedPipeFunc([fc, fd], output_name="d")
n.update_defaults({"x": 2})
n.update_bound({"b": 10})
assert n(a=1) == 22
c = n.copy()
assert c.defaults.get("x") == 2 and c.bound == {"b": 10}, (c.defaults, c.bound)
assert c(a=1) == 22
p = Pipeline([n])
assert p("d", a=1) == 22
print("F18 ok")
