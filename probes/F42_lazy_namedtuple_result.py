"""F42 (C18): a lazy pipeline hands a NamedTuple / dict-subclass RESULT to the next function as a plain tuple / dict.

evaluate_lazy() walks the arguments of a deferred call to resolve nested lazy nodes and rebuilds every container it meets with
the builtin constructor - also containers that are ordinary, already concrete values: the result of an upstream function that is
a NamedTuple arrives downstream as a bare tuple (`.u` raises AttributeError), a Counter / OrderedDict / defaultdict as a dict.
The eager pipeline passes the object itself.  Usage: F42_lazy_namedtuple_result.py [repo root].
Exit 0 = lazy evaluate() equals the eager result; exit 1 = the defect is present.
"""
import sys; sys.modules.setdefault("zarr", None); sys.path.insert(0, sys.argv[1] if len(sys.argv) > 1 else "/repo")
import collections
from typing import NamedTuple

from pipefunc import Pipeline, pipefunc


class Pair(NamedTuple):
    u: int
    v: int


@pipefunc(output_name="c")
def make(a, b):
    return Pair(a, b)


@pipefunc(output_name="d")
def use(c):
    return c.u + c.v


@pipefunc(output_name="e")
def count(a):
    return collections.Counter({"x": a})


@pipefunc(output_name="f")
def most(e):
    return e.most_common(1)[0][1]


bad = []
for outputs, fns in ((("d",), [make, use]), (("f",), [count, most])):
    eager = Pipeline(fns)(outputs[0], a=1, b=2) if "b" in Pipeline(fns).root_args(outputs[0]) else Pipeline(fns)(outputs[0], a=1)
    lazy_p = Pipeline(fns, lazy=True)
    node = lazy_p(outputs[0], a=1, b=2) if "b" in lazy_p.root_args(outputs[0]) else lazy_p(outputs[0], a=1)
    try:
        got = node.evaluate()
    except Exception as e:  # noqa: BLE001
        bad.append(f"{outputs[0]}: eager = {eager!r}, lazy evaluate() raised {type(e).__name__}: {e}")
        continue
    if got != eager:
        bad.append(f"{outputs[0]}: eager = {eager!r}, lazy = {got!r}")
print("\n".join(bad) or "ok: lazy evaluate() equals the eager result for NamedTuple- and Counter-valued nodes")
sys.exit(1 if bad else 0)
