"""F19 (C10): in-place stores into dicts that copies share by reference.

_pydantic_defaults wrote the model's field defaults into self._defaults (the user's dict, shared
with every copy); create_cache wrote 'shared' into the user's cache_kwargs.
"""
import _pre
import pydantic
from pipefunc import PipeFunc, Pipeline, pipefunc

class Model(pydantic.BaseModel):
    x: int = 1
    y: int = 2

user_defaults = {"y": 3}
p1 = PipeFunc(Model, "m", defaults=user_defaults)
p2 = p1.copy()
assert p2.defaults == {"x": 1, "y": 3}
assert user_defaults == {"y": 3}, user_defaults              # user's dict gained 'x'
assert p1._defaults == {"y": 3}, p1._defaults                # original changed by reading the copy
p1.update_bound({"x": 5})                                    # raised: 'x' both default and bound

@pipefunc(output_name="c", cache=True)
def f(a): return a
kw = {"max_size": 5}
Pipeline([f], cache_type="lru", cache_kwargs=kw)
assert kw == {"max_size": 5}, kw
print("F19 ok")
