"""F40 (C05): a finished run of a multi-output, non-MapSpec function with a CUSTOM output_picker cannot be resumed.

_execute_single returns what it loaded from the store (one value per output name) through the same channel as a freshly computed
result, and _dump_single_output applies output_picker to it again: the default picker tolerates that (index by position), a
custom one (e.g. `out[name]` on a dict) raises TypeError.  Usage: F40_resume_custom_output_picker.py [repo root].
Exit 0 = the resumed run returns the same values without calling any function; exit 1 = the defect is present.
"""
import sys; sys.modules.setdefault("zarr", None); sys.path.insert(0, sys.argv[1] if len(sys.argv) > 1 else "/repo")
import tempfile
from pipefunc import Pipeline, pipefunc
calls=[]
def picker(out, name): return out[name]
@pipefunc(output_name=("p","q"), output_picker=picker)
def two(x):
    calls.append("two"); return {"p": x, "q": 2*x}
@pipefunc(output_name="r")
def use(p, q):
    calls.append("use"); return p+q
@pipefunc(output_name="s")
def single(x):
    calls.append("single"); return [x, x]
pl = Pipeline([two, use, single])
for par in (False, True):
    with tempfile.TemporaryDirectory() as d:
        r1 = pl.map({"x": 3}, run_folder=d, parallel=par, storage="file_array")
        first = (r1["r"].output, r1["p"].output, r1["q"].output, r1["s"].output)
        n = len(calls)
        try:
            r2 = pl.map({"x": 3}, run_folder=d, parallel=par, cleanup=False, storage="file_array")
        except Exception as e:
            print("resume failed:", type(e).__name__, e); sys.exit(1)
        second = (r2["r"].output, r2["p"].output, r2["q"].output, r2["s"].output)
        print(par, first, second, "calls in resumed run:", calls[n:] if not par else "n/a")
        if first != second or (not par and calls[n:]): sys.exit(1)
