"""F08 (C06): adaptive._sequence(fixed_indices=None) enumerated range(prod(FULL shape)).

For 'x[i] -> y[i, j]' with 3 inputs and internal shape (2,) the learner sequence was [0..5];
_shape_to_key wraps modulo the dimension, so elements were computed (and dumped) twice.
"""
import _pre, tempfile
import numpy as np
from pipefunc import Pipeline, pipefunc
from pipefunc.map.adaptive import create_learners
from pipefunc.map import load_outputs

calls = []
@pipefunc(output_name="y", mapspec="x[i] -> y[i, j]", internal_shape=(2,))
def f(x):
    calls.append(x)
    return np.array([x, -x])

with tempfile.TemporaryDirectory() as d:
    learners = create_learners(Pipeline([f]), {"x": [1, 2, 3]}, run_folder=d)
    flat = learners.flatten()
    (lrn,) = flat["y"]
    assert list(lrn.sequence) == [0, 1, 2], list(lrn.sequence)
    learners.simple_run()
    assert sorted(calls) == [1, 2, 3], calls
    assert load_outputs("y", run_folder=d).tolist() == [[1, -1], [2, -2], [3, -3]]
print("F08 ok")
