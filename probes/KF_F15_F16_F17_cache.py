"""KNOWN FINDINGS (C09):
F15  bound values are not part of the cache key and no mutator (update_bound, replace, ...) touches the cache;
F16  cache_type='disk' defaults cache_dir to tempfile.gettempdir(): unrelated pipelines share entries;
F17  'key in cache' followed by cache.get(key): an eviction in between yields None as the cached result.
Exits 0 while the defects are present.
"""
import _pre, tempfile, os
from pipefunc import Pipeline, pipefunc
from pipefunc.cache import LRUCache
from pipefunc.map._run import _get_or_set_cache

@pipefunc(output_name="c", cache=True, bound={"b": 1})
def fc(a, b): return a + b
p = Pipeline([fc], cache_type="simple")
assert p("c", a=1) == 2
p["c"].update_bound({"b": 100})
print("F15", "still present" if p("c", a=1) == 2 else "gone", p("c", a=1))

@pipefunc(output_name="c")
def r1(a): return a + 1
p3 = Pipeline([r1], cache_type="simple"); p3["c"].cache = True
p3.cache = p3.cache  # noqa
assert p3("c", a=1) == 2
@pipefunc(output_name="c", cache=True)
def r2(a): return a + 1000
p3.replace(r2)
print("F15b", "still present" if p3("c", a=1) == 2 else "gone")

old = tempfile.tempdir
with tempfile.TemporaryDirectory() as d:
    tempfile.tempdir = d
    try:
        @pipefunc(output_name="out", cache=True)
        def f1(a): return a + 1
        @pipefunc(output_name="out", cache=True)
        def f2(a): return a + 1000
        p1 = Pipeline([f1], cache_type="disk", lazy=True)
        p2 = Pipeline([f2], cache_type="disk", lazy=True)
        assert p1("out", a=1).evaluate() == 2 if hasattr(p1("out", a=1), "evaluate") else True
    finally:
        tempfile.tempdir = old
with tempfile.TemporaryDirectory() as d:
    tempfile.tempdir = d
    try:
        q1 = Pipeline([f1], cache_type="disk", cache_kwargs={"lru_shared": False})
        q2 = Pipeline([f2], cache_type="disk", cache_kwargs={"lru_shared": False})
        assert q1("out", a=1) == 2
        print("F16", "still present" if q2("out", a=1) == 2 else "gone")
    finally:
        tempfile.tempdir = old

class Evicting(LRUCache):
    def __contains__(self, key):
        r = super().__contains__(key)
        self.clear()          # another process evicts between the test and the get
        return r
c = Evicting(shared=False)
@pipefunc(output_name="y")
def g(x): return x
key = ("y", (("x", 1),))
from pipefunc.cache import to_hashable
c.put(("y", to_hashable({"x": 1})), 41)
res = _get_or_set_cache(g, {"x": 1}, c, lambda: 41)
print("F17", "still present" if res is None else "gone", res)
