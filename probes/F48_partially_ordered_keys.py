"""F48 (C15): equal dicts whose KEYS are (frozen)sets get unequal cache keys, depending on insertion order.

The canonical order of an unordered container was `sorted(items, key=key)` with a TypeError fallback for keys that cannot be
compared.  `<` on sets is the SUBSET relation - a partial order for which sorted() raises nothing and whose result depends on the
order of its input: {frozenset({1}): 'x', frozenset({2}): 'y'} built in the two possible orders gives two different keys, so an
equal argument misses the cache (and a DiskCache / shared cache filled by another process is never hit).
Usage: F48_partially_ordered_keys.py [repo root].  Exit 0 = equal values, equal keys; exit 1 = defect present.
"""
import itertools
import sys; sys.modules.setdefault("zarr", None); sys.path.insert(0, sys.argv[1] if len(sys.argv) > 1 else "/repo")
from pipefunc.cache import to_hashable

bad = []
items = [(frozenset({1}), "x"), (frozenset({2}), "y"), (frozenset({1, 2}), "z"), (frozenset(), "e")]
keys = {to_hashable(dict(p)) for p in itertools.permutations(items)}
if len(keys) != 1:
    bad.append(f"one dict with frozenset keys, {len(keys)} different cache keys over its insertion orders")
nested = [((frozenset({1}), 2), 1), ((frozenset({2}), 1), 2), ("k", 3)]
keys = {to_hashable(dict(p)) for p in itertools.permutations(nested)}
if len(keys) != 1:
    bad.append(f"one dict with (frozenset, int) tuple keys and a str key, {len(keys)} different cache keys")
# unchanged behaviour for totally ordered keys
if to_hashable({3, 1, 2})[2] != (1, 2, 3) or to_hashable({"b": 1, "a": 2})[2] != (("a", 2), ("b", 1)):
    bad.append("the canonical order of plainly comparable keys changed")
print("\n".join(bad) or "ok: equal containers get equal keys, whatever the order they were built in")
sys.exit(1 if bad else 0)
