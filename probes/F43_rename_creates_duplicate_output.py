"""F43 (C12): renaming an output onto the name of another output is accepted; the pipeline then has two functions for one name.

validate_unique_output_names only ran in Pipeline.add.  `pipeline.update_renames({"d": "c"})` or `pipeline["d"].update_renames(...)`
left output names ['c', 'c']; the name table silently kept the later function and `pipeline("c", ...)` ran user code and returned
its value - duplicate output names are to raise at construction or at the start of run/map.
Usage: F43_rename_creates_duplicate_output.py [repo root].  Exit 0 = rejected before user code runs; exit 1 = defect present.
"""
import sys; sys.modules.setdefault("zarr", None); sys.path.insert(0, sys.argv[1] if len(sys.argv) > 1 else "/repo")
from pipefunc import Pipeline, pipefunc

calls = []


def make():
    @pipefunc(output_name="c")
    def f(a):
        calls.append("f"); return a + 1

    @pipefunc(output_name="d")
    def g(a):
        calls.append("g"); return a + 100

    return Pipeline([f, g])


bad = []
for how in ("pipeline.update_renames", "member.update_renames"):
    p = make()
    calls.clear()
    try:
        if how.startswith("pipeline"):
            p.update_renames({"d": "c"})
        else:
            p["d"].update_renames({"d": "c"})
        r = p("c", a=1)
        m = p.map({"a": 1}, parallel=False, storage="dict")
    except ValueError as e:
        if calls:
            bad.append(f"{how}: rejected ({e}) but only after user code ran: {calls}")
        continue
    bad.append(f"{how}: output names {[x.output_name for x in p.functions]} accepted; p('c', a=1) = {r}, user calls {calls}")
print("\n".join(bad) or "ok: a rename that duplicates an output name is rejected before any user function runs")
sys.exit(1 if bad else 0)
