"""F35 (C14): HybridCache(shared=True): a put into a FULL cache issued from another process raises.

`_expire` iterates the manager proxy itself (`for k in self._access_counts`).  DictProxy exposes keys()/items()/values()
but its __iter__ goes through `self._manager`-less machinery after unpickling: in a child process the proxy was rebuilt
by pickle (no manager attached) and iterating it raises AttributeError: 'NoneType' object has no attribute '_registry'.
Exit 0 = the child could put into the full cache; exit 1 = the defect is present.
"""
import _pre  # noqa: F401
import multiprocessing as mp
import sys
import traceback

from pipefunc.cache import HybridCache


def child(cache, q):
    try:
        cache.put("c", 3, 1.0)  # cache is full: must expire one entry
        q.put(("ok", len(cache)))
    except BaseException as e:  # noqa: BLE001
        q.put(("raised", f"{type(e).__name__}: {e}", traceback.format_exc()[-400:]))


if __name__ == "__main__":
    cache = HybridCache(max_size=2, shared=True)
    cache.put("a", 1, 1.0)
    cache.put("b", 2, 1.0)
    ctx = mp.get_context("spawn")
    q = ctx.Queue()
    p = ctx.Process(target=child, args=(cache, q))
    p.start()
    res = q.get(timeout=60)
    p.join()
    print(res[:2])
    if res[0] != "ok" or len(cache) != 2:
        print(res[-1])
        sys.exit(1)
    print("child put into the full shared cache; len stays", len(cache))
