"""F56 (C10, known finding): nest_funcs / NestedPipeFunc refuse functions whose parameters were scoped.

NestedPipeFunc.original_parameters wraps every input name of its internal pipeline in inspect.Parameter(name, ...), which only
accepts identifiers.  After update_scope the names are `scope.name`: Pipeline.update_scope("s", inputs="*", outputs="*") followed
by nest_funcs(...) raises ValueError("'s.a' is not a valid parameter name") - the composition scope-then-nest cannot be built,
while nest-then-scope (after the repair of F53) computes the same values.
Usage: KF_F56_nest_after_scope.py [repo root].  Exit 0 = the composition works; exit 1 = defect present.
"""
import sys; sys.modules.setdefault("zarr", None); sys.path.insert(0, sys.argv[1] if len(sys.argv) > 1 else "/repo")
from pipefunc import Pipeline, pipefunc


@pipefunc("c")
def f(a, b):
    return a + b


@pipefunc("d")
def g(c):
    return 2 * c


@pipefunc("e")
def h(d, x=1):
    return d + x


want = Pipeline([f, g, h])("e", a=1, b=2)
bad = []
p = Pipeline([f, g, h])
p.update_scope("s", inputs="*", outputs="*")
try:
    p.nest_funcs({"s.c", "s.d"}, new_output_name="s.d")
    got = p("s.e", **{"s.a": 1, "s.b": 2})
    if got != want:
        bad.append(f"scope then nest computes {got!r}, the original pipeline {want!r}")
except Exception as e:  # noqa: BLE001
    bad.append(f"scope then nest: {type(e).__name__}: {str(e)[:80]}")
print("\n".join(bad) or "ok: a scoped pipeline can be nested")
sys.exit(1 if bad else 0)
