"""F49 (C10): after a pickle round-trip, updating a member function no longer invalidates the pipeline's cached views.

PipeFunc.__getstate__ drops `_pipelines` (weak references to the pipelines that contain the function) and __setstate__ starts
from an empty set; Pipeline had no __setstate__ that registers itself again.  `p2 = loads(dumps(p))` computes what p computes -
but `p2["c"].update_defaults(...)`, `p2["d"].update_renames(...)`, update_bound, ... change the function and leave p2.defaults,
p2.root_args, the graph, ... as cached: the pipeline keeps using the old default, refuses the new parameter name and still
demands the old one.  The same updates on the original pipeline work.
Usage: F49_unpickled_pipeline_member_updates.py [repo root].  Exit 0 = the unpickled pipeline behaves like the original.
"""
import copy
import pickle
import sys; sys.modules.setdefault("zarr", None); sys.path.insert(0, sys.argv[1] if len(sys.argv) > 1 else "/repo")
import cloudpickle
from pipefunc import Pipeline, pipefunc


@pipefunc("c")
def f(a, b=1):
    return a + b


@pipefunc("d")
def g(c, z=5):
    return c * z


def fresh():
    p = Pipeline([f.copy(), g.copy()])
    _ = (p.defaults, p.graph, p.root_args("d"), p("d", a=1))  # populate the cached views
    return p


def history(p):
    out = [p("d", a=1)]
    p["c"].update_defaults({"b": 10})
    out.append(p("d", a=1))
    p["d"].update_renames({"z": "zz"})
    try:
        out.append(p("d", a=1, zz=2))
    except Exception as e:  # noqa: BLE001
        out.append(f"{type(e).__name__}")
    out.append(sorted(p.root_args("d")))
    return out


want = history(fresh())
bad = []
for how, clone in (("cloudpickle", lambda p: cloudpickle.loads(cloudpickle.dumps(p))), ("pickle", lambda p: pickle.loads(pickle.dumps(p))), ("deepcopy", copy.deepcopy)):
    got = history(clone(fresh()))
    if got != want:
        bad.append(f"{how}: original pipeline {want}, round-tripped pipeline {got}")
print("\n".join(bad) or "ok: member updates invalidate the caches of a round-tripped pipeline")
sys.exit(1 if bad else 0)
