"""F14 (C09): a supplied intermediate value is not part of the cache key and did not disable it."""
import _pre
from pipefunc import Pipeline, pipefunc

def build(cache_type):
    @pipefunc(output_name="c", cache=True)
    def fc(a): return a + 1
    @pipefunc(output_name="d", cache=True)
    def fd(a, c): return 10 * c + a
    return Pipeline([fc, fd], cache_type=cache_type)

ref = build(None)
for ct in ("simple", "lru", "hybrid"):
    p = build(ct)
    assert p("d", a=1) == ref("d", a=1) == 21
    assert p("d", a=1, c=100) == ref("d", a=1, c=100) == 1001, (ct, p("d", a=1, c=100))
    assert p("d", a=1) == 21
print("F14 ok")
