"""F58 (C07): with an internal shape, DictArray returns UNMASKED placeholders for elements that were never written.

DictArray._internal_mask() built the stand-in for a missing element with np.ma.empty(internal_shape) - an array with nothing
masked.  `arr[i, j]` of an unwritten element returned that whole block (shape internal_shape, mask False) instead of `masked`, and a
slice through unwritten elements contained plain None values, indistinguishable from a stored None.  FileArray (and the masked
NumPy reference) answer `masked`.
Usage: F58_dict_array_unwritten_internal.py [repo root].  Exit 0 = unwritten elements read back masked, as with FileArray.
"""
import sys; sys.modules.setdefault("zarr", None); sys.path.insert(0, sys.argv[1] if len(sys.argv) > 1 else "/repo")
import tempfile
from pathlib import Path

import numpy as np
from pipefunc.map._storage_array._dict import DictArray
from pipefunc.map._storage_array._file import FileArray


def missing(x) -> list[bool]:
    """Which positions of a read result are marked missing (masked array mask, or `masked` constants in an object array)."""
    if x is np.ma.masked:
        return [True]
    if isinstance(x, np.ma.MaskedArray):
        return np.ma.getmaskarray(x).ravel().tolist()
    if isinstance(x, np.ndarray):
        return [v is np.ma.masked for v in x.ravel().tolist()]
    return [False]


bad = []
for mask, full, unwritten_int, unwritten_slice, mixed in (
    ((True, False), (2, 3), (1, 0), (1, slice(None)), (slice(None), 0)),
    ((False, True), (3, 2), (0, 1), (slice(None), 1), (0, slice(None))),
):
    got = {}
    for cls in (FileArray, DictArray):
        a = cls(Path(tempfile.mkdtemp()), shape=(2,), internal_shape=(3,), shape_mask=mask)
        a.dump((0,), np.array([1, 2, 3]))
        got[cls.__name__] = [missing(a[unwritten_int]), missing(a[unwritten_slice]), missing(a[mixed]), missing(a[tuple(slice(None) for _ in full)])]
    if got["FileArray"] != got["DictArray"]:
        bad.append(f"shape_mask={mask}: positions reported missing differ - FileArray {got['FileArray']}, DictArray {got['DictArray']}")
print("\n".join(bad) or "ok: unwritten elements of an array with an internal shape read back masked from every backend")
sys.exit(1 if bad else 0)
