"""F27 (C17): Sweep.product used the loop variable after the loop (only the last operand's
exclude/constants/derivers; product() with no operand -> UnboundLocalError);
F29 (C17): len(Sweep({})) == 1 while list() == [].
"""
import _pre
from pipefunc.sweep import Sweep

a = Sweep({"a": [1, 2]})
b = Sweep({"b": [1, 2]}, exclude=lambda d: d["b"] == 1)
c = Sweep({"c": [1, 2]})
prod = a.product(b, c).list()
assert all(d["b"] != 1 for d in prod) and len(prod) == 4, prod           # F27: middle exclude dropped
assert a.product().list() == a.list()                                      # F27: UnboundLocalError

assert len(Sweep({})) == len(Sweep({}).list()) == 0                       # F29
for s in (a, b, a.product(b, c)):
    assert len(s) == len(s.list())
print("F27/F29 ok")
