"""F34 (C05): RunInfo._write published run_info.json FIRST and the inputs/defaults afterwards.

run_info.json is the marker that makes a cleanup=False resume read inputs/*.cloudpickle and defaults.cloudpickle
(unguarded).  A death after run_info.json but before the defaults were written made every later resume fail with
"Could not load previous run info ... cannot use cleanup=False".  Expected: the marker is published last.
(Found by the C05 seeding sub-agent while exploring the unchanged tree, and by rule C05.2-readers-guarded.)
"""
import _pre, tempfile
from pathlib import Path
from unittest import mock
import pipefunc.map._run_info as ri
from pipefunc import Pipeline, pipefunc

class Die(BaseException): ...

@pipefunc(output_name="y", mapspec="x[i] -> y[i]")
def f(x, k=1):
    return x + k

with tempfile.TemporaryDirectory() as d:
    p = Pipeline([f])
    real_dump = ri.dump
    state = {"n": 0}
    def dying_dump(obj, path):
        state["n"] += 1
        if "defaults" in str(path):
            raise Die            # the process dies before the defaults are published
        return real_dump(obj, path)
    with mock.patch.object(ri, "dump", dying_dump):
        try:
            p.map({"x": [1, 2]}, run_folder=d, parallel=False)
        except Die:
            pass
    r = p.map({"x": [1, 2]}, run_folder=d, parallel=False, cleanup=False)   # ValueError before the fix
    assert r["y"].output.tolist() == [2, 3]
print("F34 ok")
