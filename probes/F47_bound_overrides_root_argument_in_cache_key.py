"""F47 (C09): the bound value of the cached function replaces a same-named ROOT argument in the run-cache key.

Pipeline._run built the key values as `_func_defaults(func) | flat_scope_kwargs | func._bound`.  A parameter that `func` binds is
not one of func's root arguments (its edge comes from a _Bound node), but a root argument of the same name may be consumed by a
function UPSTREAM of func: with `h(b)` feeding `f(h, b)` where `b` is bound in f, the key of `c = f(...)` contains b = <bound
value> for every call - pipeline("c", b=2) and pipeline("c", b=3) share one entry and the second call returns the first result.
Usage: F47_bound_overrides_root_argument_in_cache_key.py [repo root].  Exit 0 = cached == uncached; exit 1 = defect present.
"""
import sys; sys.modules.setdefault("zarr", None); sys.path.insert(0, sys.argv[1] if len(sys.argv) > 1 else "/repo")
from pipefunc import Pipeline, pipefunc


def build(cache: bool, cache_type):
    @pipefunc("h")
    def hh(b):
        return 10 * b

    @pipefunc("c", cache=cache, bound={"b": 5})
    def f(h, b):
        return h + b

    return Pipeline([hh, f], cache_type=cache_type)


bad = []
for cache_type in ("lru", "hybrid", "simple"):
    cached, plain = build(True, cache_type), build(False, None)
    for b in (2, 3, 2):
        got, want = cached("c", b=b), plain("c", b=b)
        if got != want:
            bad.append(f"cache_type={cache_type!r}: pipeline('c', b={b}) returns {got!r}, the uncached twin {want!r}")
print("\n".join(bad) or "ok: the cached pipeline follows the root argument that an upstream function consumes")
sys.exit(1 if bad else 0)
