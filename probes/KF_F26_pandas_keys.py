"""KNOWN FINDING F26 (C15): pandas Series are keyed by (name, to_dict()) and DataFrames by to_dict('list');
row order, duplicate index labels and the DataFrame index are lost, so different values share a key.
Not repaired: tests/test_cache_to_hashable.py pins both key layouts exactly.  Exits 0 while present.
"""
import _pre
import pandas as pd
from pipefunc.cache import to_hashable
a = pd.Series([1, 2], index=["a", "b"]); b = pd.Series([2, 1], index=["b", "a"])
print("F26 series order", "still present" if to_hashable(a) == to_hashable(b) and not a.equals(b) else "gone")
a = pd.Series([1, 2], index=["a", "a"]); b = pd.Series([2], index=["a"])
print("F26 series dup index", "still present" if to_hashable(a) == to_hashable(b) else "gone")
d1 = pd.DataFrame({"A": [1, 2]}, index=[0, 1]); d2 = pd.DataFrame({"A": [1, 2]}, index=[5, 6])
print("F26 frame index", "still present" if to_hashable(d1) == to_hashable(d2) and not d1.equals(d2) else "gone")
