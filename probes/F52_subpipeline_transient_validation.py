"""F52 (C11): subpipeline refuses a computable request because it validates half-restricted pipelines.

Pipeline.subpipeline dropped the functions that are not needed one at a time with Pipeline.drop, which validates the pipeline
after every single removal.  With `y = f(x)`, `zg = g(y=1)`, `zh = h(y=2)` the request subpipeline({'y'}, {'zg'}) keeps only g -
a valid pipeline - but when f is dropped before h the intermediate pipeline [g, h] has `y` as a ROOT argument with two
different defaults and the request is refused with "Inconsistent default values" (whether it is depends on the listing order).
Usage: F52_subpipeline_transient_validation.py [repo root].  Exit 0 = every computable request succeeds in every listing order.
"""
import itertools
import sys; sys.modules.setdefault("zarr", None); sys.path.insert(0, sys.argv[1] if len(sys.argv) > 1 else "/repo")
from pipefunc import Pipeline, pipefunc


@pipefunc("y")
def f(x):
    return x


@pipefunc("zg")
def g(y=1):
    return y + 1


@pipefunc("zh")
def h(y=2):
    return y + 2


bad = []
for order in itertools.permutations([f, g, h]):
    names = [o.output_name for o in order]
    try:
        p = Pipeline([o.copy() for o in order])
    except ValueError:
        continue  # this listing order cannot even be constructed before the repair of F51 - a different defect
    for out, want in (("zg", 11), ("zh", 12)):
        try:
            got = p.subpipeline({"y"}, {out})(out, y=10)
            if got != want:
                bad.append(f"{names}: subpipeline({{'y'}}, {{{out!r}}}) computes {got!r}, expected {want!r}")
        except Exception as e:  # noqa: BLE001
            bad.append(f"{names}: subpipeline({{'y'}}, {{{out!r}}}) is refused: {type(e).__name__}: {str(e)[:60]}")
        try:
            r = p.map({"y": 10}, output_names={out}, parallel=False, storage="dict")
            if r[out].output != want:
                bad.append(f"{names}: map(output_names={{{out!r}}}) gives {r[out].output!r}")
        except Exception as e:  # noqa: BLE001
            bad.append(f"{names}: map({{'y': 10}}, output_names={{{out!r}}}) is refused: {type(e).__name__}: {str(e)[:60]}")
print("\n".join(bad) or "ok: the restriction is validated as a whole, every computable request succeeds")
sys.exit(1 if bad else 0)
