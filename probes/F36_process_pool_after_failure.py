"""F36 (C03): after a user-function failure in the parent process, a later map over VALID inputs with the default
process pool raises PicklingError, while the same map run sequentially succeeds.

The failure handler of PipeFunc.__call__ stores ErrorSnapshot(self.func, ...) on the PipeFunc.  `self.func` is the raw
function object; for a function decorated with @pipefunc at module level the module attribute of that name is the PipeFunc,
so plain pickle (used by ProcessPoolExecutor) cannot pickle the snapshot's function by reference - and PipeFunc.__getstate__
only converts `func` itself with cloudpickle, not the copy inside the snapshot.
Exit 0 = the parallel run after a failure gives the sequential result; exit 1 = the defect is present.
"""
import _pre  # noqa: F401
import sys

import numpy as np

from pipefunc import Pipeline, pipefunc


@pipefunc(output_name="y", mapspec="x[i] -> y[i]")
def f(x):
    if x == 2:
        raise ValueError("boom %d" % x)
    return x * 10


if __name__ == "__main__":
    p = Pipeline([f])
    try:
        p.map({"x": np.arange(4)}, parallel=False, storage="dict")
    except ValueError:
        pass
    else:
        sys.exit("the failing run did not fail")
    want = p.map({"x": np.array([0, 1])}, parallel=False, storage="dict")["y"].output.tolist()
    try:
        got = p.map({"x": np.array([0, 1])}, parallel=True, storage="dict")["y"].output.tolist()
    except Exception as e:  # noqa: BLE001
        print(f"parallel run after a failure raised {type(e).__name__}: {str(e)[:160]}")
        sys.exit(1)
    print("sequential", want, "parallel", got)
    sys.exit(0 if got == want else 1)
