"""F02 (C01): consumer uses only one name of a tuple-output producer with a ':' axis.

replace_none_in_axes wrote non_root_inputs[output_name][j] for every sibling output of the
tuple, but only outputs that some MapSpec consumes are keys -> KeyError at Pipeline([...]).
"""
import _pre
import numpy as np
from pipefunc import Pipeline, pipefunc

@pipefunc(output_name=("a", "b"))
def prod():
    return np.array([1, 2, 3]), np.array([4, 5, 6])

@pipefunc(output_name="c", mapspec="a[:], q[i] -> c[i]")
def cons(a, q):
    return sum(a) + q

p = Pipeline([prod, cons])          # KeyError: 'b' before the fix
r = p.map({"q": [0, 1]}, internal_shapes={"a": (3,)}, parallel=False, storage="dict")
assert r["c"].output.tolist() == [6, 7], r["c"].output
print("F02 ok")
