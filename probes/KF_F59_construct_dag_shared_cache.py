"""F59 (C18, known finding): inside one construct_dag() block, two pipelines with an equally named output return each other's results.

While a task graph is being recorded every pipeline call is memoised in the block's ONE cache under (output name, root-argument
values).  Output names are unique per pipeline, not across pipelines: `add -> c` and `mul -> c`, both called with a=2, b=3 in the
same block, share the entry - the second deferred result evaluates to 5 instead of 6 (outside the block: 5 and 6).
Usage: KF_F59_construct_dag_shared_cache.py [repo root].  Exit 0 = each pipeline evaluates to its own eager result.
"""
import sys; sys.modules.setdefault("zarr", None); sys.path.insert(0, sys.argv[1] if len(sys.argv) > 1 else "/repo")
from pipefunc import Pipeline, pipefunc
from pipefunc.lazy import construct_dag


@pipefunc("c")
def add(a, b):
    return a + b


@pipefunc("c")
def mul(a, b):
    return a * b


bad = []
lazy = [Pipeline([add], lazy=True), Pipeline([mul], lazy=True)]
eager = [Pipeline([add])("c", a=2, b=3), Pipeline([mul])("c", a=2, b=3)]
for order in ((0, 1), (1, 0)):
    with construct_dag() as dag:
        deferred = {i: lazy[i]("c", a=2, b=3) for i in order}
        again = lazy[order[0]]("c", a=2, b=3)  # the same call of the same pipeline IS shared (one node)
    got = [deferred[i].evaluate() for i in (0, 1)]
    if got != eager:
        bad.append(f"call order {order}: the two pipelines evaluate to {got}, eagerly they give {eager}")
    if again is not deferred[order[0]]:
        bad.append(f"call order {order}: repeating a call inside the block no longer returns the recorded node")
print("\n".join(bad) or "ok: pipelines that share a construct_dag block keep their own results")
sys.exit(1 if bad else 0)
