"""F46 (C07/C03): a map whose function has NO mapped axis (`x[:] -> y[j]`) fails with dict / shared-memory dict storage only.

DictArray.mask_linear computed `self.mask.data[:].flat`; with no mapped axis the external shape is (), the mask is a 0-d array,
and `[:]` on a 0-d array raises IndexError ("array is 0-dimensional").  FileArray answers from the file listing and works, so the
same valid map runs with storage='file_array' and is refused with storage='dict'.
Usage: F46_dict_storage_no_mapped_axis.py [repo root].  Exit 0 = all backends agree; exit 1 = defect present.
"""
import sys; sys.modules.setdefault("zarr", None); sys.path.insert(0, sys.argv[1] if len(sys.argv) > 1 else "/repo")
import tempfile

from pipefunc import Pipeline, pipefunc


@pipefunc(output_name="y", mapspec="x[:] -> y[j]", internal_shape=(2,))
def summarise(x):
    return [sum(x), len(x)]


results, bad = {}, []
for storage in ("file_array", "dict", "shared_memory_dict"):
    try:
        r = Pipeline([summarise.copy()]).map({"x": [1, 2, 3]}, parallel=False, storage=storage, run_folder=tempfile.mkdtemp())
        results[storage] = [int(v) for v in r["y"].output.tolist()]
    except Exception as e:  # noqa: BLE001
        bad.append(f"{storage}: {type(e).__name__}: {e}")
if len({tuple(v) for v in results.values()}) > 1:
    bad.append(f"backends disagree: {results}")
print("\n".join(bad) or f"ok: all backends agree: {results}")
sys.exit(1 if bad else 0)
