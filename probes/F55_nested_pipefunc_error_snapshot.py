"""F55 (C13): Pipeline.error_snapshot raises AttributeError when the pipeline contains a NestedPipeFunc.

Pipeline.error_snapshot walks the functions and reads `f.error_snapshot`; NestedPipeFunc.__init__ (which does not call
PipeFunc.__init__) never creates the attribute - it only appears once the nested function itself has failed.  For a pipeline
with a nested function the property raises "'NestedPipeFunc' object has no attribute 'error_snapshot'" instead of returning None
before any failure, and instead of the snapshot of a failing function that is listed after the nested one.
Usage: F55_nested_pipefunc_error_snapshot.py [repo root].  Exit 0 = the pipeline exposes the snapshot of the failing function.
"""
import sys; sys.modules.setdefault("zarr", None); sys.path.insert(0, sys.argv[1] if len(sys.argv) > 1 else "/repo")
from pipefunc import Pipeline, pipefunc


@pipefunc("c")
def f(a, b):
    return a + b


@pipefunc("d")
def g(c):
    return 2 * c


@pipefunc("e")
def h(d, x=1):
    if d > 5:
        msg = "boom"
        raise ValueError(msg)
    return d + x


bad = []
p = Pipeline([f, g, h])
p.nest_funcs({"c", "d"}, new_output_name="d")
p.functions.sort(key=lambda fn: fn is p["e"])  # the nested function is listed first
try:
    if p.error_snapshot is not None:
        bad.append("a snapshot before anything failed")
except AttributeError as e:
    bad.append(f"before any failure: {e}")
try:
    p("e", a=1, b=2)
    bad.append("the failing call did not raise")
except ValueError:
    pass
try:
    snap = p.error_snapshot
    if snap is None or snap.kwargs != {"d": 6, "x": 1}:
        bad.append(f"after the failure of h: snapshot {snap!r}")
except AttributeError as e:
    bad.append(f"after the failure of h: {e}")
print("\n".join(bad) or "ok: the pipeline exposes the snapshot of the failing function")
sys.exit(1 if bad else 0)
