"""F61 (C10/C16): nest_funcs with a single output is refused for annotated functions ("Inconsistent type annotations").

PipeFunc.output_annotation read the return annotation of the wrapped callable; for a NestedPipeFunc that is the internal pipeline's
`call_full_output`, which returns the dict of ALL results (`dict[str, Any]`).  With one output name that dict annotation was taken
for the output's type: nesting `c2 = f(a: int) -> int; d2 = g(c2: int) -> int` into one function whose output `d2` feeds
`h(d2: int)` raised TypeError at construction although every edge of the original pipeline is compatible.
Usage: F61_nest_annotated_single_output.py [repo root].  Exit 0 = the nested pipeline is accepted and computes the same value.
"""
import sys; sys.modules.setdefault("zarr", None); sys.path.insert(0, sys.argv[1] if len(sys.argv) > 1 else "/repo")
from pipefunc import Pipeline, pipefunc


@pipefunc("c2")
def f2(a: int) -> int:
    return a + 1


@pipefunc("d2")
def g2(c2: int) -> int:
    return 2 * c2


@pipefunc("e2")
def h2(d2: int) -> int:
    return d2 + 1


@pipefunc("s2")
def bad_consumer(d2: str) -> str:
    return d2


bad = []
want = Pipeline([f2, g2, h2])("e2", a=1)
try:
    p = Pipeline([f2, g2, h2])
    p.nest_funcs({"c2", "d2"}, new_output_name="d2")
    got = p("e2", a=1)
    if got != want:
        bad.append(f"nested: {got!r}, original: {want!r}")
    if p["d2"].output_annotation != {"d2": int}:
        bad.append(f"the nested function's output annotation is {p['d2'].output_annotation}")
except Exception as e:  # noqa: BLE001
    bad.append(f"nesting two annotated functions into one output raises {type(e).__name__}: {str(e).splitlines()[0][:80]}")
# an incompatible edge out of the nested function is still rejected
try:
    q = Pipeline([f2, g2, bad_consumer])
    q.nest_funcs({"c2", "d2"}, new_output_name="d2")
    bad.append("int -> str out of a nested function is accepted")
except TypeError:
    pass
print("\n".join(bad) or "ok: a nested function carries the annotations of the functions that produce its outputs")
sys.exit(1 if bad else 0)
