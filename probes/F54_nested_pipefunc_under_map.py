"""F54 (C10): Pipeline.map raises AttributeError for every pipeline that contains a NestedPipeFunc.

RunInfo.create reads `f.internal_shape` of every function (to pre-declare the shapes of internal axes); NestedPipeFunc.__init__
does not call PipeFunc.__init__ and never sets the attribute.  nest_funcs(...) followed by map(...) fails with
"'NestedPipeFunc' object has no attribute 'internal_shape'" whatever the MapSpecs, storage and executor are - the rewrite is only
value-preserving under pipeline(...).
Usage: F54_nested_pipefunc_under_map.py [repo root].  Exit 0 = the nested pipeline maps to the same values.
"""
import sys; sys.modules.setdefault("zarr", None); sys.path.insert(0, sys.argv[1] if len(sys.argv) > 1 else "/repo")
import tempfile
from pipefunc import Pipeline, pipefunc


@pipefunc("c", mapspec="a[i], b[i] -> c[i]")
def f(a, b):
    return a + b


@pipefunc("d", mapspec="c[i] -> d[i]")
def g(c):
    return 2 * c


@pipefunc("e", mapspec="d[i] -> e[i]")
def h(d, x=1):
    return d + x


@pipefunc("s")
def total(e):
    return sum(e)


inputs = {"a": [1, 2, 3], "b": [2, 3, 4]}
want = Pipeline([f, g, h, total]).map(inputs, parallel=False, storage="dict")
bad = []
for storage in ("dict", "file_array"):
    p = Pipeline([f, g, h, total])
    p.nest_funcs({"c", "d"}, new_output_name="d")
    try:
        got = p.map(inputs, run_folder=tempfile.mkdtemp(), parallel=False, storage=storage)
        for name in ("e", "s"):
            if list(got[name].output.tolist() if hasattr(got[name].output, "tolist") else [got[name].output]) != list(
                want[name].output.tolist() if hasattr(want[name].output, "tolist") else [want[name].output]
            ):
                bad.append(f"storage={storage}: {name} = {got[name].output!r}, the un-nested pipeline gives {want[name].output!r}")
    except Exception as e:  # noqa: BLE001
        bad.append(f"storage={storage}: map of the nested pipeline raises {type(e).__name__}: {str(e)[:80]}")
print("\n".join(bad) or "ok: a pipeline with a NestedPipeFunc maps to the values of the un-nested pipeline")
sys.exit(1 if bad else 0)
